"""units.py -- registry of verification units (see tools/vlib.py for the fields)."""
import os, sys
sys.path.insert(0, os.path.join(os.path.dirname(os.path.abspath(__file__)), "tools"))
from vlib import Unit

POLYSEED_STR_SIZE_PLUS1 = 600  # unwinding bound for specification loops over a polyseed_str (must exceed POLYSEED_STR_SIZE; too small => unwinding assertion => UNDECIDED)
UNITS = []
def U(**kw):
    UNITS.append(Unit(**kw))

# ---------------------------------------------------------------- GF layer
U(name="U.gf.mul2", harness="harness/gf_mul2.c", mode="D", enforce="gf_elem_mul2",
  functions=["gf_elem_mul2"], props=["C02", "C05", "C13"])
U(name="U.gf.eval", harness="harness/gf_eval.c", mode="D", enforce="gf_poly_eval",
  replace=["gf_elem_mul2"], functions=["gf_poly_eval"],
  exact_loops=[("gf_poly_eval", 0, 15)], props=["C02", "C05"])
U(name="U.gf.encode", harness="harness/gf_encode.c", mode="D", enforce="gf_poly_encode",
  replace=["gf_poly_eval"], functions=["gf_poly_encode"], props=["C02", "C03"])
U(name="U.gf.check", harness="harness/gf_check.c", mode="D", enforce="gf_poly_check",
  replace=["gf_poly_eval"], functions=["gf_poly_check"], props=["C02"])

U(name="U.gf.pack", harness="harness/gf_pack.c", mode="D", enforce="polyseed_data_to_poly",
  functions=["polyseed_data_to_poly"],
  exact_loops=[("polyseed_data_to_poly", 0, 15), ("polyseed_data_to_poly", 1, "<=3 per word")],
  props=["C01", "C03", "C11", "C13"])
U(name="U.gf.unpack", harness="harness/gf_unpack.c", mode="D", enforce="polyseed_poly_to_data",
  functions=["polyseed_poly_to_data"],
  exact_loops=[("polyseed_poly_to_data", 0, 15), ("polyseed_poly_to_data", 1, "<=3 per word")],
  props=["C01", "C13", "C04"])
U(name="L.pack.inv1", harness="harness/lem_pack_inverse.c", mode="L", unwind=40,
  replace=["polyseed_data_to_poly", "polyseed_poly_to_data"], props=["C01", "C10", "C11"])
U(name="L.pack.inv2", harness="harness/lem_pack_inverse.c", mode="L", defines=["LEMMA_INV2"],
  replace=["polyseed_data_to_poly", "polyseed_poly_to_data"], props=["C01", "C02"])

for lem, props in (("SINGLE", ["C02"]), ("SWAP", ["C02"]), ("UNIQUE", ["C02", "C03"]), ("COIN", ["C05"])):
    U(name="L.gf." + lem.lower(), harness="harness/lem_checksum.c", mode="L", defines=["LEMMA_" + lem],
      replace=["gf_poly_check"] + (["gf_poly_encode"] if lem == "UNIQUE" else []), props=props)

# ---------------------------------------------------------------- storage, birthday, features
U(name="U.st.store", harness="harness/st_store.c", mode="D", enforce="polyseed_data_store",
  functions=["polyseed_data_store", "store16"], props=["C06", "C13"])
U(name="U.st.load", harness="harness/st_load.c", mode="D", enforce="polyseed_data_load",
  functions=["polyseed_data_load", "load16"], props=["C06", "C13", "C14"])
U(name="U.bd.encode", harness="harness/bd_encode.c", mode="D", enforce="birthday_encode",
  functions=["birthday_encode"], props=["C11"])
U(name="U.bd.decode", harness="harness/bd_decode.c", mode="D", enforce="birthday_decode",
  functions=["birthday_decode"], props=["C11"])
U(name="U.ft.make", harness="harness/ft_make.c", mode="D", enforce="make_features",
  functions=["make_features"], props=["C10"])
U(name="U.ft.get", harness="harness/ft_get.c", mode="D", enforce="get_features",
  functions=["get_features"], props=["C10"])
U(name="U.ft.isenc", harness="harness/ft_isenc.c", mode="D", enforce="is_encrypted",
  functions=["is_encrypted"], props=["C10", "C12"])
U(name="U.ft.supported", harness="harness/ft_supported.c", mode="D", enforce="polyseed_features_supported",
  functions=["polyseed_features_supported"], props=["C10"])
U(name="U.ft.enable", harness="harness/ft_enable.c", mode="D", enforce="polyseed_enable_features",
  functions=["polyseed_enable_features"], exact_loops=[("polyseed_enable_features", 0, 3)],
  props=["C10", "C13", "C20"])

# ---------------------------------------------------------------- API, mode D
U(name="U.api.keygen", harness="harness/api_keygen.c", mode="D", enforce="polyseed_keygen",
  functions=["polyseed_keygen", "store32"], unwind=40, props=["C04", "C13", "C18"])

U(name="U.api.free", harness="harness/api_free.c", mode="D", enforce="polyseed_free",
  functions=["polyseed_free"], unwind=50, props=["C15", "C16", "C13"])
U(name="U.api.create", harness="harness/api_create.c", mode="D", enforce="polyseed_create",
  replace=["make_features", "polyseed_features_supported", "birthday_encode", "polyseed_data_to_poly", "gf_poly_encode"],
  functions=["polyseed_create"], unwind=40, props=["C10", "C11", "C13", "C15", "C18", "C03"])
U(name="U.api.get_birthday", harness="harness/api_get_birthday.c", mode="D", enforce="polyseed_get_birthday",
  replace=["birthday_decode"], functions=["polyseed_get_birthday"], props=["C11"])
U(name="U.api.get_feature", harness="harness/api_get_feature.c", mode="D", enforce="polyseed_get_feature",
  replace=["get_features"], functions=["polyseed_get_feature"], props=["C10"])
U(name="U.api.is_encrypted", harness="harness/api_is_encrypted.c", mode="D", enforce="polyseed_is_encrypted",
  replace=["is_encrypted"], functions=["polyseed_is_encrypted"], props=["C10", "C12"])
U(name="U.api.store", harness="harness/api_store.c", mode="D", enforce="polyseed_store",
  replace=["polyseed_data_store"], functions=["polyseed_store"], props=["C06"])
U(name="U.api.load", harness="harness/api_load.c", mode="D", enforce="polyseed_load",
  replace=["polyseed_data_load", "polyseed_data_to_poly", "gf_poly_check", "polyseed_features_supported", "polyseed_free"],
  functions=["polyseed_load"], unwind=50, props=["C06", "C02", "C10", "C13", "C14", "C15"])

# ---------------------------------------------------------------- string layer, mode H
U(name="U.str.nfkd_lazy", harness="harness/str_nfkd_lazy.c", mode="H", loops=True, profiles=["nfkd_lazy"],
  functions=["utf8_nfkd_lazy"], loop_contracts=["utf8_nfkd_lazy"], chars=("signed", "unsigned"),
  expect_loop_obligations=2, props=["C14", "C17", "C19", "C12"])

U(name="U.str.split", harness="harness/str_split.c", mode="H", loops=True, profiles=["str_split"],
  functions=["str_split"], loop_contracts=["str_split"], expect_loop_obligations=4, unwind=POLYSEED_STR_SIZE_PLUS1,
  props=["C09", "C14"], timeout=900)

U(name="B.str.split_ref", harness="harness/str_split_ref.c", mode="P", unwind=41,
  bounded="NUL-terminated buffer of at most 40 bytes (all contents); loops unrolled to the buffer size",
  functions=["str_split"], props=["C09"], timeout=900)

U(name="U.str.write", harness="harness/str_write.c", mode="H", loops=True, profiles=["write_str"], defines=["SRC_OBJ=64"],
  functions=["write_str"], loop_contracts=["write_str"], expect_loop_obligations=2, unwind=POLYSEED_STR_SIZE_PLUS1,
  note="source string object of 64 bytes (every table word and separator is shorter); any cursor position", props=["C03", "C17"], timeout=900)
U(name="U.str.write.full", harness="harness/str_write.c", mode="H", loops=True, profiles=["write_str"], quick=False,
  functions=["write_str"], loop_contracts=["write_str"], expect_loop_obligations=2, unwind=POLYSEED_STR_SIZE_PLUS1,
  note="source string object as large as a polyseed_str", props=["C03", "C17"], timeout=1800)

for kind in ("STR", "PREFIX", "STR_NOACCENT", "PREFIX_NOACCENT"):
    U(name="B.cmp." + kind.lower(), harness="harness/cmp_func.c", mode="P", defines=["CMP_" + kind], unwind=12,
      bounded="key <= 10 bytes, list element <= 8 bytes (all byte values); loops unrolled to those lengths",
      functions=["compare_" + kind.lower()], chars=("signed", "unsigned"), props=["C08", "C19"], timeout=900)

for kind, nl in (("STR", 2), ("PREFIX", 2), ("STR_NOACCENT", 4), ("PREFIX_NOACCENT", 7)):
    U(name="U.cmp." + kind.lower(), harness="harness/cmp_safe.c", mode="H", loops=True, profiles=["cmp"], weave_functions=["compare_" + kind.lower()],
      defines=["CMP_" + kind], functions=["compare_" + kind.lower()], loop_contracts=["compare_" + kind.lower()],
      expect_loop_obligations=nl, chars=("signed", "unsigned"), props=["C14", "C08", "C19"], timeout=900)

U(name="U.lang.search", harness="harness/lang_search.c", mode="H", loops=True, profiles=["lang_search"],
  functions=["lang_search"], loop_contracts=["lang_search"], expect_loop_obligations=2, unwind=40, dfcc_loops=True, object_bits=14,
  exact_loops=[("bsearch (model of libc, stubs/bsearch_model.h)", 0, "<= 12 probes for 2048 entries")],
  props=["C07", "C09", "C14"], timeout=900)

U(noweave_fallback=True, name="U.lang.phrase_decode", harness="harness/lang_decode.c", mode="H", defines=["UNIT_AUTO"],
  profiles=["phrase_decode"], replace_calls=[("lang_search", "stub_lang_search")], object_bits=14,
  functions=["polyseed_phrase_decode", "polyseed_get_num_langs", "polyseed_get_lang"],
  exact_loops=[("polyseed_phrase_decode", 0, 10), ("polyseed_phrase_decode", 1, 16), ("polyseed_phrase_decode", 2, 16)],
  props=["C09", "C01", "C16", "C14"], timeout=900)
U(name="U.lang.phrase_decode_explicit", harness="harness/lang_decode.c", mode="H", defines=["UNIT_EXPLICIT"],
  replace_calls=[("lang_search", "stub_lang_search")], object_bits=14,
  functions=["polyseed_phrase_decode_explicit"], exact_loops=[("polyseed_phrase_decode_explicit", 0, 16)],
  props=["C09", "C01", "C14"], timeout=900)
U(name="U.lang.get_comparer", harness="harness/lang_decode.c", mode="H", defines=["UNIT_COMPARER"], object_bits=14,
  functions=["get_comparer"], props=["C07", "C08"])

DEC_RC = [("utf8_nfkd_lazy", "contract_nfkd_lazy"), ("str_split", "contract_str_split"), ("gf_poly_check", "contract_gf_poly_check")]
U(noweave_fallback=True, name="U.api.decode", harness="harness/api_decode.c", mode="H", profiles=["decode"], replace_calls=DEC_RC,
  functions=["polyseed_decode"], unwind=POLYSEED_STR_SIZE_PLUS1,
  props=["C01", "C02", "C05", "C09", "C10", "C13", "C14", "C15", "C16"], timeout=900)
U(noweave_fallback=True, name="U.api.decode_explicit", harness="harness/api_decode.c", mode="H", profiles=["decode"], replace_calls=DEC_RC,
  defines=["UNIT_EXPLICIT"], functions=["polyseed_decode_explicit"], unwind=POLYSEED_STR_SIZE_PLUS1,
  props=["C01", "C02", "C05", "C09", "C10", "C13", "C14", "C15", "C16"], timeout=900)

U(noweave_fallback=True, name="U.api.crypt", harness="harness/api_crypt.c", mode="H", profiles=["crypt"],
  replace_calls=[("utf8_nfkd_lazy", "contract_nfkd_lazy"), ("gf_poly_encode", "contract_gf_poly_encode")],
  functions=["polyseed_crypt"], exact_loops=[("polyseed_crypt", 0, 19)], unwind=POLYSEED_STR_SIZE_PLUS1,
  props=["C12", "C13", "C14", "C16"], timeout=900)
U(name="L.crypt.involution", harness="harness/lem_crypt.c", mode="P", props=["C12", "C04"])
U(name="L.crypt.wrongpw", harness="harness/lem_crypt.c", mode="P", defines=["LEMMA_WRONGPW"], props=["C12"])

U(noweave_fallback=True, name="U.api.encode", harness="harness/api_encode.c", mode="H", profiles=["encode"],
  replace_calls=[("write_str", "contract_write_str")], object_bits=14,
  functions=["polyseed_encode"], exact_loops=[("polyseed_encode", 0, 15)], unwind=POLYSEED_STR_SIZE_PLUS1,
  props=["C03", "C01", "C05", "C13", "C16", "C17"], timeout=1800, mem_gb=32)

U(name="L.rt.index", harness="harness/lem_roundtrip.c", mode="P", props=["C01", "C05", "C04", "C10", "C11"])
U(name="L.kdf.injective", harness="harness/lem_roundtrip.c", mode="P", defines=["LEMMA_KDF"], props=["C04"])
U(name="L.st.inv1", harness="harness/lem_storage.c", mode="L", replace=["polyseed_data_store", "polyseed_data_load"], props=["C06", "C11", "C10"])
U(name="L.st.inv2", harness="harness/lem_storage.c", mode="L", defines=["LEMMA_INV2"], replace=["polyseed_data_store", "polyseed_data_load"], props=["C06"])
U(name="U.lang.registry", harness="harness/lang_registry.c", mode="P", object_bits=14,
  functions=["polyseed_get_num_langs", "polyseed_get_lang", "polyseed_get_lang_name", "polyseed_get_lang_name_en"], props=["C07"])
U(name="U.dep.inject", harness="harness/dep_inject.c", mode="D", enforce="polyseed_inject",
  replace=["polyseed_get_num_langs", "polyseed_get_lang", "polyseed_lang_check"],
  functions=["polyseed_inject"], props=["C18", "C13", "C20"])

for kind in ("STR", "PREFIX", "STR_NOACCENT", "PREFIX_NOACCENT"):
    U(name="B.cmp." + kind.lower() + ".big", harness="harness/cmp_func.c", mode="P", defines=["CMP_" + kind, "KEYB=14", "ELMB=11"], unwind=16, quick=False,
      bounded="key <= 13 bytes, list element <= 10 bytes (all byte values); loops unrolled to those lengths",
      functions=["compare_" + kind.lower()], chars=("signed", "unsigned"), props=["C08", "C19"], timeout=3000)

U(name="B.str.nfkd_lazy", harness="harness/str_nfkd_lazy_b.c", mode="P", unwind=12,
  bounded="strings of at most 9 bytes (all byte values); no woven text, so it also decides refactored loops",
  functions=["utf8_nfkd_lazy"], chars=("signed", "unsigned"), props=["C19", "C14"])

# functional rule of the four comparers, closed by woven inductive invariants (profile cmpf).  The two comparers
# without accent handling are proved on the full domain (key in an object as large as a polyseed_str, element object
# 64 bytes); the two accent-skipping comparers need ghost count / stripped-string arrays and are run with a key
# object of 64 bytes in the quick tier (bounded in the key length) and of POLYSEED_STR_SIZE bytes in the thorough tier.
for kind, nl in (("STR", 2), ("PREFIX", 3)):
    U(name="U.cmpf." + kind.lower(), harness="harness/cmp_rule.c", mode="H", loops=True, profiles=["cmpf"], weave_functions=["compare_" + kind.lower()],
      defines=["CMP_" + kind], functions=["compare_" + kind.lower(), "compare_" + kind.lower() + "_wrap"], loop_contracts=["compare_" + kind.lower()],
      expect_loop_obligations=nl, chars=("signed", "unsigned"), unwind=POLYSEED_STR_SIZE_PLUS1, props=["C08", "C07", "C19"], timeout=1800,
      note="key object 1..POLYSEED_STR_SIZE bytes, element object 1..64 bytes (T.wordlen), all byte values")
for kind, nl in (("STR_NOACCENT", 6), ("PREFIX_NOACCENT", 12)):
    U(name="U.cmpf." + kind.lower(), harness="harness/cmp_rule.c", mode="H", loops=True, profiles=["cmpf"], weave_functions=["compare_" + kind.lower()],
      defines=["CMP_" + kind, "CMP_KOBJ=64", "CMP_EOBJ=16", "FIXED_OBJ"], functions=["compare_" + kind.lower(), "compare_" + kind.lower() + "_wrap"],
      loop_contracts=["compare_" + kind.lower()], expect_loop_obligations=nl, chars=("signed", "unsigned"), unwind=POLYSEED_STR_SIZE_PLUS1,
      bounded="key of at most 63 bytes (all byte values, any number of accent bytes); list element of at most 15 bytes (closed fact T.wordlen: every Spanish/French word is shorter); loops closed by invariants, not unrolled",
      props=["C08", "C07", "C19"], timeout=1800, mem_gb=16)
    U(name="U.cmpf." + kind.lower() + ".full", harness="harness/cmp_rule.c", mode="H", loops=True, profiles=["cmpf"], quick=False, weave_functions=["compare_" + kind.lower()],
      defines=["CMP_" + kind, "CMP_EOBJ=16", "FIXED_OBJ"], functions=["compare_" + kind.lower(), "compare_" + kind.lower() + "_wrap"],
      loop_contracts=["compare_" + kind.lower()], expect_loop_obligations=nl, chars=("signed",), unwind=POLYSEED_STR_SIZE_PLUS1,
      note="key in an object as large as a polyseed_str (every token the decoders can produce), element object 16 bytes (T.wordlen)",
      props=["C08", "C07", "C19"], timeout=10800, mem_gb=24)
U(name="L.cmpf.axioms", harness="harness/cmp_rule.c", mode="P", defines=["CMP_PREFIX_NOACCENT", "LEMMA_AXIOMS"], props=["C08", "C07", "C19"])
U(name="U.dep.stdlib_time", harness="harness/dep_stdlib_time.c", mode="P", functions=["stdlib_time"], props=["C11", "C18"])
U(name="L.cmp.order", harness="harness/lem_cmp_order.c", mode="P", unwind=20, chars=("signed", "unsigned"), props=["C07", "C08", "C19"],
  note="lemma over the comparer contract: stripped strings of at most 16 letters, all byte values")

# the same contracts with the library's assert()s compiled out (-DNDEBUG, the Release configuration): code that only runs
# inside an assert() -- a wipe, a dependency call, a check -- disappears there
import copy as _copy
for _n in ("U.api.free", "U.api.create", "U.api.load", "U.api.crypt", "U.api.decode", "U.api.decode_explicit", "U.lang.phrase_decode", "U.api.keygen", "U.api.encode", "U.dep.inject", "U.api.store", "U.lang.search"):
    _u = _copy.copy([u for u in UNITS if u.name == _n][0])
    _u.name = _n + "@ndebug"; _u.asserts_on = False; _u.props = ["C16", "C14"]; _u.canary = False
    if _n == "U.dep.inject":
        _u.replace = []      # the debug self-test (and its callees) does not exist under NDEBUG
    UNITS.append(_u)
NDEBUG_UNITS = [u.name for u in UNITS if u.name.endswith("@ndebug")]

# thorough tier: the cheap units are repeated on CBMC's default MiniSat back end (second solver, must agree)
for _u in UNITS:
    if _u.name.startswith(("U.gf.", "U.bd.", "U.ft.", "U.st.", "L.gf.", "L.st.", "L.pack.", "U.api.get", "U.api.is_", "U.api.store", "L.cmp.order", "L.cmpf.axioms", "U.dep.stdlib")):
        _u.minisat_cross = True

BY_NAME = {u.name: u for u in UNITS}
