#!/usr/bin/env python3
"""runall.py [pattern] -- run all (matching) units once with canaries, in parallel; print a table (debugging aid)"""
import os, sys, fnmatch, time
from concurrent.futures import ThreadPoolExecutor
sys.path.insert(0, os.path.dirname(os.path.dirname(os.path.abspath(__file__))))
sys.path.insert(0, os.path.dirname(os.path.abspath(__file__)))
import units, vlib
pat = sys.argv[1] if len(sys.argv) > 1 and not sys.argv[1].startswith("--") else "*"
nocan = "--nocanary" in sys.argv
work = os.path.join(vlib.VERIF, ".work", "runall")
jobs = []
for u in units.UNITS:
    if not fnmatch.fnmatch(u.name, pat): continue
    for ch in u.chars:
        jobs.append((u, ch, False))
        if u.canary and not nocan: jobs.append((u, ch, True))
t0 = time.time()
with ThreadPoolExecutor(max_workers=int(os.environ.get("VERIF_JOBS", "12"))) as ex:
    res = list(ex.map(lambda j: (j, vlib.run_unit(j[0], j[1], work, canary=j[2], keep=True)), jobs))
for (u, ch, can), r in res:
    print("%-28s %-8s %-6s %-9s obl=%4d ok=%4d loop=%3d %6.1fs %s" % (u.name, ch, "canary" if can else "", r.status, r.obligations, r.discharged, r.loop_obligations, r.wall_s, r.reason[:300]))
    if not can:
        for f in r.failed[:6]:
            print("      FAIL", f["property"], "|", f["description"][:120], "|", f["location"])
print("total %.1fs" % (time.time() - t0))
