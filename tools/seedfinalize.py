#!/usr/bin/env python3
"""seedfinalize.py -- turn confirmed incoming seeded changes into seeded/<id>/ (patch.diff, demonstration, meta.json)"""
import json, os, shutil, sys, glob
V = os.path.dirname(os.path.dirname(os.path.abspath(__file__)))
INC = os.path.join(V, "seeded", "_incoming")
mp = os.path.join(V, "seeded", "matrix.json")
matrix = json.load(open(mp)) if os.path.exists(mp) else {}
OFFSET = int(os.environ.get("SEED_OFFSET", "0"))   # round 2: SEED_OFFSET=2 -> ids Cxx-3, Cxx-4
rows = []
for pid in sorted(os.listdir(INC)):
    for n in (1, 2):
        cf = os.path.join(INC, pid, "confirm%d.json" % n)
        if not os.path.exists(cf):
            continue
        c = json.load(open(cf))
        if c.get("status") != "CONFIRMED":
            continue
        sid = "%s-%d" % (pid, n + OFFSET)
        d = os.path.join(V, "seeded", sid)
        os.makedirs(d, exist_ok=True)
        shutil.copy(os.path.join(INC, pid, "patch%d.diff" % n), os.path.join(d, "patch.diff"))
        for f in glob.glob(os.path.join(INC, pid, "demo%d.*" % n)) + glob.glob(os.path.join(INC, pid, "demo_deps.h")) + glob.glob(os.path.join(INC, pid, "demo_common.h")) + glob.glob(os.path.join(INC, pid, "run_demo.sh")):
            shutil.copy(f, d)
        note = open(os.path.join(INC, pid, "note%d.md" % n), errors="replace").read() if os.path.exists(os.path.join(INC, pid, "note%d.md" % n)) else ""
        m = matrix.get("%s/%d" % (pid, n), {})
        caught_by = sorted(p for p, r in m.items() if r.get("rc") == 1)
        undec = sorted(p for p, r in m.items() if r.get("rc") == 2)
        meta = {
            "id": sid, "breaks_property": pid,
            "written_by": "independent sub-agent given only the property text and a scratch worktree of /repo (nothing from /verif)",
            "what_it_needs_to_manifest": note.strip()[:1800],
            "confirmed": {"how": "tools/seedconfirm.py on a scratch copy of /repo HEAD: demonstration exits 0 on the unchanged tree, patch applies, "
                                  "library builds, the repository's test binary prints 'All tests were successful', demonstration exits non-zero with the patch",
                          "demo_rc_unchanged": c.get("demo_rc_unchanged"), "demo_rc_patched": c.get("demo_rc_patched"),
                          "tests_pass_with_patch": c.get("tests_pass_with_patch")},
            "checks_run": {p: {"exit": r.get("rc"), "violations": r.get("violations"), "undecided": r.get("undecided")} for p, r in sorted(m.items())},
            "caught_by": caught_by, "undecided_in": undec,
        }
        json.dump(meta, open(os.path.join(d, "meta.json"), "w"), indent=1)
        own = m.get(pid, {})
        rows.append((sid, "CAUGHT" if own.get("rc") == 1 else ("undecided" if own.get("rc") == 2 else ("MISSED" if own else "not run")),
                     ", ".join((own.get("violations") or [])[:2])[:110], ",".join(caught_by)))
for r in rows:
    print("| %s | %s | %s | %s |" % r)
