#!/usr/bin/env python3
"""run1.py <unit> [signed|unsigned] [--canary] [--keep] -- run one unit, print the result (debugging aid)"""
import os, sys, json
sys.path.insert(0, os.path.dirname(os.path.dirname(os.path.abspath(__file__))))
sys.path.insert(0, os.path.dirname(os.path.abspath(__file__)))
import units, vlib
args = [a for a in sys.argv[1:] if not a.startswith("--")]
u = units.BY_NAME[args[0]]
char = args[1] if len(args) > 1 else "signed"
work = os.path.join(vlib.VERIF, ".work", "run1")
r = vlib.run_unit(u, char, work, canary="--canary" in sys.argv, keep=True)
print(r.status, r.reason, "obl=%d ok=%d loopobl=%d wall=%.1fs solver=%.1fs canary=%s" % (r.obligations, r.discharged, r.loop_obligations, r.wall_s, r.solver_s, r.canary_ok))
for f in r.failed[:10]:
    print("  FAIL", f["property"], "|", f["description"], "|", f["location"])
    if "--inputs" in sys.argv:
        for k, v in list(f["inputs"].items())[:60]:
            print("      ", k, "=", v)
if "--cmd" in sys.argv: print(r.cmd)
