#!/usr/bin/env python3
"""seedtest.py <patch.diff> <property|unit>... -- apply a seeded patch to a scratch copy of /repo (src+include)
and run the given properties' checks (./check with VERIF_REPO) or single units against it."""
import os, sys, shutil, subprocess, tempfile
V = os.path.dirname(os.path.dirname(os.path.abspath(__file__)))
sys.path.insert(0, V); sys.path.insert(0, os.path.join(V, "tools"))
patch = os.path.abspath(sys.argv[1]); targets = sys.argv[2:]
d = tempfile.mkdtemp(prefix="verif-seed.")
try:
    for sub in ("src", "include"):
        shutil.copytree(os.path.join("/repo", sub), os.path.join(d, sub))
    r = subprocess.run(["patch", "-p1", "-s", "-d", d, "-i", patch], capture_output=True, text=True)
    if r.returncode != 0:
        print("PATCH DOES NOT APPLY:", r.stdout[-300:], r.stderr[-300:]); sys.exit(3)
    env = dict(os.environ, VERIF_REPO=d)
    for t in targets:
        if t.startswith("C") and t[1:].isdigit():
            r = subprocess.run([os.path.join(V, "check"), t], env=env, capture_output=True, text=True)
            lines = [l for l in r.stdout.splitlines() if l.startswith(("VIOLATION", "UNDECIDED", "KNOWN", t))]
            print("== %s rc=%d" % (t, r.returncode)); print("\n".join(l[:260] for l in lines[:8]))
        else:
            os.environ["VERIF_REPO"] = d
            import importlib, vlib, units
            vlib.REPO = d
            u = units.BY_NAME[t]
            for ch in u.chars:
                res = vlib.run_unit(u, ch, os.path.join(d, "work"), repo=d)
                print("== %s %s: %s %s" % (t, ch, res.status, res.reason[:200]))
                for f in res.failed[:4]: print("     ", f["property"], "|", f["description"][:110])
finally:
    shutil.rmtree(d, ignore_errors=True)
