#!/usr/bin/env python3
"""seedmatrix.py [--all-props] [Cxx ...] -- run the check of the broken property (or of all properties) against every
confirmed seeded change (scratch copy of /repo + patch, VERIF_REPO); writes seeded/matrix.json"""
import json, os, shutil, subprocess, sys, tempfile
from concurrent.futures import ThreadPoolExecutor
V = os.path.dirname(os.path.dirname(os.path.abspath(__file__)))
INC = os.path.join(V, "seeded", "_incoming")
allp = "--all-props" in sys.argv
ids = [a for a in sys.argv[1:] if not a.startswith("--")] or sorted(x for x in os.listdir(INC) if x.startswith("C"))
PROPS = ["C%02d" % i for i in range(1, 21)]
def run(job):
    pid, n = job
    d = os.path.join(INC, pid)
    cf = os.path.join(d, "confirm%d.json" % n)
    if not os.path.exists(cf) or json.load(open(cf)).get("status") != "CONFIRMED":
        return pid, n, None
    t = tempfile.mkdtemp(prefix="verif-sm.")
    out = {}
    try:
        for sub in ("src", "include"):
            shutil.copytree(os.path.join("/repo", sub), os.path.join(t, sub))
        subprocess.run(["patch", "-p1", "-s", "--fuzz=3", "-d", t, "-i", os.path.join(d, "patch%d.diff" % n)], capture_output=True)
        for prop in (PROPS if allp else [pid]):
            r = subprocess.run([os.path.join(V, "check"), prop], env=dict(os.environ, VERIF_REPO=t, VERIF_JOBS="6"), capture_output=True, text=True)
            viol = [l for l in r.stdout.splitlines() if l.startswith("VIOLATION")]
            und = [l for l in r.stdout.splitlines() if l.startswith("UNDECIDED")]
            out[prop] = {"rc": r.returncode, "violations": [v.split("obligation=")[-1][:120] for v in viol][:6], "undecided": [u[:200] for u in und][:3]}
    finally:
        shutil.rmtree(t, ignore_errors=True)
    return pid, n, out
jobs = [(i, n) for i in ids for n in (1, 2)]
res = {}
mp = os.path.join(V, "seeded", "matrix.json")
if os.path.exists(mp): res = json.load(open(mp))
with ThreadPoolExecutor(max_workers=3) as ex:
    for pid, n, out in ex.map(run, jobs):
        if out is None: continue
        res.setdefault("%s/%d" % (pid, n), {}).update(out)
        print(pid, n, {k: (v["rc"], v["violations"][:2]) for k, v in out.items()}, flush=True)
        json.dump(res, open(mp, "w"), indent=1)
