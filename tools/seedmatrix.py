#!/usr/bin/env python3
"""seedmatrix.py [--all-props] [seed-id ...] -- run the check of the broken property (or of all properties) against every
seeded change under seeded/<id>/ (scratch copy of /repo + patch.diff, VERIF_REPO); writes seeded/matrix.json and
records the outcome in each seeded/<id>/meta.json (checks_run, caught_by, undecided_in)."""
import json, os, shutil, subprocess, sys, tempfile
from concurrent.futures import ThreadPoolExecutor
V = os.path.dirname(os.path.dirname(os.path.abspath(__file__)))
SD = os.path.join(V, "seeded")
allp = "--all-props" in sys.argv
ids = [a for a in sys.argv[1:] if not a.startswith("--")] or sorted(x for x in os.listdir(SD) if os.path.exists(os.path.join(SD, x, "patch.diff")))
PROPS = ["C%02d" % i for i in range(1, 21)]
def run(sid):
    d = os.path.join(SD, sid)
    meta = json.load(open(os.path.join(d, "meta.json")))
    pid = meta["breaks_property"]
    t = tempfile.mkdtemp(prefix="verif-sm.")
    out = {}
    try:
        for sub in ("src", "include"):
            shutil.copytree(os.path.join("/repo", sub), os.path.join(t, sub))
        r = subprocess.run(["patch", "-p1", "-s", "--fuzz=3", "-d", t, "-i", os.path.join(d, "patch.diff")], capture_output=True, text=True)
        if r.returncode != 0:
            return sid, {"error": "patch does not apply to the current /repo: " + (r.stdout + r.stderr)[-200:]}
        for prop in (PROPS if allp else [pid]):
            r = subprocess.run([os.path.join(V, "check"), prop], env=dict(os.environ, VERIF_REPO=t, VERIF_JOBS=os.environ.get("VERIF_JOBS", "6")), capture_output=True, text=True)
            viol = [l for l in r.stdout.splitlines() if l.startswith("VIOLATION")]
            und = [l for l in r.stdout.splitlines() if l.startswith("UNDECIDED")]
            out[prop] = {"rc": r.returncode, "violations": [v.split("obligation=")[-1][:140] for v in viol][:6],
                         "n_violations": len(viol), "replayed_natively": sum(1 for v in viol if not v.rstrip().endswith("no-failing-input-found")),
                         "undecided": [u[:200] for u in und][:3]}
    finally:
        shutil.rmtree(t, ignore_errors=True)
    return sid, out
res = {}
mp = os.path.join(SD, "matrix.json")
if os.path.exists(mp): res = json.load(open(mp))
with ThreadPoolExecutor(max_workers=int(os.environ.get("SEED_PAR", "3"))) as ex:
    for sid, out in ex.map(run, ids):
        res.setdefault(sid, {}).update(out)
        print(sid, {k: ((v["rc"], v["violations"][:2]) if isinstance(v, dict) else v) for k, v in out.items()}, flush=True)
        json.dump(res, open(mp, "w"), indent=1, sort_keys=True)
        mpth = os.path.join(SD, sid, "meta.json")
        meta = json.load(open(mpth))
        cr = meta.get("checks_run", {}) if isinstance(meta.get("checks_run"), dict) else {}
        for p, r in out.items():
            if isinstance(r, dict):
                cr[p] = {"exit": r["rc"], "violations": r["violations"], "replayed_natively": r["replayed_natively"], "undecided": r["undecided"]}
        meta["checks_run"] = cr
        meta["caught_by"] = sorted(p for p, r in cr.items() if r.get("exit") == 1)
        meta["undecided_in"] = sorted(p for p, r in cr.items() if r.get("exit") == 2)
        json.dump(meta, open(mpth, "w"), indent=1)
