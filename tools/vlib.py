#!/usr/bin/env python3
"""vlib.py -- unit runner for contract-based verification of /repo with CBMC 6.11.

A *unit* is one harness translation unit that #includes real (extracted, possibly woven) library
sources, plus the instrumentation recipe:

  mode 'D' : goto-instrument --dfcc harness --enforce-contract f [--replace-call-with-contract g]*
             [--apply-loop-contracts]            -- function body checked against its own contract
  mode 'L' : lemma: --dfcc harness --replace-call-with-contract g*   (contracts only, no bodies)
  mode 'H' : harness-enforced contract: the harness assumes the requires, calls the real function,
             asserts the ensures; woven loop contracts applied with --apply-loop-contracts
             (dfcc=True uses `--dfcc harness --apply-loop-contracts` instead)
  mode 'P' : plain: no instrumentation at all (initialiser checks, bounded checks)

Every unit is run under `timeout` and `ulimit -v`.  Results are parsed from `cbmc --json-ui`.
Outcomes: 'pass' (all obligations SUCCESS), 'fail' (>=1 FAILURE, with trace), 'undecided'
(timeout, tool error, weaving/compile break, missing loop obligations, dropped quantifier).
"""
import json
import os
import re
import shutil
import subprocess
import sys
import time
from dataclasses import dataclass, field

sys.path.insert(0, os.path.dirname(os.path.abspath(__file__)))
import weave  # noqa: E402

VERIF = os.path.dirname(os.path.dirname(os.path.abspath(__file__)))
REPO = os.environ.get("VERIF_REPO", "/repo")

SAFETY_FLAGS = ["--bounds-check", "--pointer-check", "--pointer-overflow-check",
                "--signed-overflow-check", "--div-by-zero-check", "--undefined-shift-check",
                "--pointer-primitive-check"]


@dataclass
class Unit:
    name: str
    harness: str                      # path relative to /verif
    mode: str = "D"                   # D, L, H, P
    enforce: str = None
    replace: list = field(default_factory=list)
    loops: bool = False               # apply (woven) loop contracts
    dfcc_loops: bool = False          # mode H: use --dfcc harness --apply-loop-contracts
    profiles: list = field(default_factory=list)   # weave profiles
    weave_functions: list = field(default_factory=list)  # if given: only the sections of these functions are woven (a refactoring of
                                                         # another function of the same profile then leaves this unit decidable)
    tables: bool = False              # needs lang_*.c
    extra_sources: list = field(default_factory=list)  # extracted sources to link, e.g. src/gf.c
    unwind: int = 40
    unwindset: list = field(default_factory=list)
    object_bits: int = 12
    defines: list = field(default_factory=list)
    chars: tuple = ("signed",)        # which char settings to run: signed / unsigned
    safety: bool = True
    asserts_on: bool = True           # library assert()s enabled (no NDEBUG)
    timeout: int = 600
    mem_gb: int = 8
    bounded: str = None               # None => unbounded/exact; else text describing the bound
    exact_loops: list = field(default_factory=list)   # [(function, loop, trips)] unrolled exactly
    loop_contracts: list = field(default_factory=list)  # names of functions whose loops are closed by LC
    functions: list = field(default_factory=list)     # functions under contract in this unit
    expect_loop_obligations: int = 0  # minimum number of loop-invariant obligations required
    canary: bool = True
    solver: list = field(default_factory=lambda: ["--sat-solver", "cadical"])  # cbmc back-end flags
    props: list = field(default_factory=list)
    note: str = ""
    no_nondet_static: bool = False
    quick: bool = True                # part of the quick tier
    replace_calls: list = field(default_factory=list)  # [(callee, stub)] mechanical call substitution (goto-instrument --replace-calls): contract stubs in mode H
    fallback_defines: list = field(default_factory=lambda: ["VERIF_NO_TABLE"])  # retried when the harness no longer compiles (e.g. a static the contracts mention was removed)
    minisat_cross: bool = False       # thorough tier: repeat with the default MiniSat back end
    noweave_fallback: bool = False    # exit-weave-only units: when the woven text no longer fits (weave or compile break after a
                                      # refactoring) re-run without it (-DVERIF_NOWEAVE): a failure there is a violation, a pass leaves
                                      # the unit undecided (the exit assertions could not be checked)


@dataclass
class Result:
    unit: str
    char: str
    status: str                       # pass / fail / undecided
    reason: str = ""
    obligations: int = 0
    discharged: int = 0
    failed: list = field(default_factory=list)     # [{property, description, location, trace}]
    loop_obligations: int = 0
    canary_ok: bool = None
    wall_s: float = 0.0
    solver_s: float = 0.0
    cmd: str = ""
    log: str = ""
    samples: list = field(default_factory=list)
    backend: str = "cbmc 6.11.0 SAT back end"


def sh(cmd, cwd=None, timeout=None, mem_gb=8, stdout_path=None):
    """run cmd (list) under ulimit -v; -> (rc, stdout, stderr, timed_out)"""
    quoted = " ".join("'" + c.replace("'", "'\\''") + "'" for c in cmd)
    shell = "ulimit -v %d; exec %s" % (mem_gb * 1024 * 1024, quoted)
    try:
        if stdout_path:
            with open(stdout_path, "wb") as so:
                p = subprocess.run(["bash", "-c", shell], cwd=cwd, stdout=so,
                                   stderr=subprocess.PIPE, timeout=timeout)
            return p.returncode, "", p.stderr.decode("utf-8", "replace"), False
        p = subprocess.run(["bash", "-c", shell], cwd=cwd, stdout=subprocess.PIPE,
                           stderr=subprocess.PIPE, timeout=timeout)
        return p.returncode, p.stdout.decode("utf-8", "replace"), p.stderr.decode("utf-8", "replace"), False
    except subprocess.TimeoutExpired as e:
        return -1, "", "timeout after %ss" % timeout, True


_spec_cache = {}


def spec_sections():
    p = os.path.join(VERIF, "contracts", "loops.spec")
    if p not in _spec_cache:
        _spec_cache[p] = weave.parse_spec(p) if os.path.exists(p) else []
    return _spec_cache[p]


def expected_loops():
    p = os.path.join(VERIF, "contracts", "loopcounts.json")
    if os.path.exists(p):
        with open(p) as f:
            d = json.load(f)
        return {tuple(k.split(":")): v for k, v in d.items()}
    return {}


def parse_cbmc_json(path):
    """-> (results list, messages list, solver_time) ; tolerant of truncated output"""
    with open(path, encoding="utf-8", errors="replace") as f:
        txt = f.read()
    try:
        data = json.loads(txt)
    except Exception:
        # try to repair a truncated array
        try:
            data = json.loads(txt.rstrip().rstrip(",") + "]")
        except Exception:
            return None, [], 0.0, None
    results = None
    msgs = []
    verdict = None
    solver = 0.0
    for item in data:
        if not isinstance(item, dict):
            continue
        if "result" in item:
            results = item["result"]
        if "messageText" in item:
            msgs.append(item["messageText"])
            mo = re.search(r"Runtime decision procedure: ([0-9.]+)s", item["messageText"])
            if mo:
                solver += float(mo.group(1))
        if "cProverStatus" in item:
            verdict = item["cProverStatus"]
    return results, msgs, solver, verdict


def _flatten(lhs, v, out):
    """flatten a CBMC json value (struct members / array elements) into name -> scalar text"""
    if not isinstance(v, dict):
        return
    if "members" in v:
        out[lhs] = "struct"
        for m in v["members"]:
            _flatten("%s.%s" % (lhs, m.get("name")), m.get("value"), out)
    elif "elements" in v:
        out[lhs] = "array"
        for e in v["elements"]:
            _flatten("%s[%sl]" % (lhs, e.get("index")), e.get("value"), out)
    else:
        out[lhs] = v.get("data", v.get("name"))


def trace_inputs(trace):
    """collect values of assignments in a CBMC json trace: {"last": name -> final value,
    "first": name -> first value (initial contents of objects the function later overwrites)};
    struct and array values are flattened to their scalar leaves; dfcc bookkeeping variables are dropped"""
    last, first = {}, {}
    for st in trace or []:
        if st.get("stepType") == "assignment":
            lhs = st.get("lhs")
            v = st.get("value", {})
            if lhs is None or lhs.startswith("__") or "dfcc" in lhs or "write_set" in lhs or lhs.startswith("tmp_"):
                continue
            if st.get("hidden", False) and not lhs.startswith(("dynamic_object", "reserved_features", "polyseed_mul2_table", "polyseed_deps")) \
                    and not (isinstance(v, dict) and ("members" in v or "elements" in v)):
                continue
            flat = {}
            _flatten(lhs, v, flat)
            for k, val in flat.items():
                last[k] = val
                first.setdefault(k, val)
    return {"last": last, "first": first}


def run_unit(u: Unit, char: str, workroot: str, canary=False, keep=False, repo=None):
    """run a unit; if only unwinding assertions fail (a loop the recorded bound does not cover, e.g. after a
    source change that introduces a longer library loop) retry once with a generous bound"""
    r = _run_unit(u, char, workroot, canary, keep, repo)
    if (r.status == "undecided" and u.noweave_fallback and u.profiles
            and r.reason.startswith(("weave:", "goto-cc failed"))):
        import copy
        u2 = copy.copy(u)
        u2.profiles = []
        u2.defines = list(u.defines) + ["VERIF_NOWEAVE"]
        u2.noweave_fallback = False
        r2 = run_unit(u2, char, workroot + ".noweave", canary, keep, repo)
        r2.wall_s += r.wall_s
        if r2.status == "fail":
            for f in r2.failed:
                f["description"] = f["description"] + " [checked without the woven exit recording, which no longer fits the source]"
            return r2
        r.reason = ("woven exit recording no longer fits the source (%s); the rest of the contract re-checked without it: %s"
                    % (r.reason[:160], "holds" if r2.status == "pass" else "undecided (" + r2.reason[:120] + ")"))
        r.wall_s = r2.wall_s
        return r
    if r.status == "undecided" and u.mem_gb < 24 and ("UNKNOWN" in r.reason or "rc=6" in r.reason) and not canary:
        # solver / symbolic execution ran out of memory under the per-unit limit: one retry with a larger limit
        import copy
        u3 = copy.copy(u)
        u3.mem_gb = 24
        r3 = _run_unit(u3, char, workroot, canary, keep, repo)
        r3.wall_s += r.wall_s
        if r3.status != "undecided":
            return r3
    if r.status == "undecided" and r.reason.startswith("unwinding assertion failed") and u.unwind < 640:
        import copy
        u2 = copy.copy(u)
        u2.unwind = 640
        r2 = _run_unit(u2, char, workroot, canary, keep, repo)
        r2.wall_s += r.wall_s
        return r2
    return r


def _run_unit(u: Unit, char: str, workroot: str, canary=False, keep=False, repo=None):
    repo = repo or REPO
    t0 = time.time()
    tag = "%s.%s%s" % (u.name, char, ".canary" if canary else "")
    wd = os.path.join(workroot, tag)
    if os.path.exists(wd):
        shutil.rmtree(wd)
    os.makedirs(wd)
    res = Result(unit=u.name, char=char, status="undecided")
    try:
        secs = [x for x in spec_sections() if not u.weave_functions or x["function"] in u.weave_functions]
        weave.extract(repo, wd, secs, set(u.profiles), with_tables=u.tables,
                      expect_loops=expected_loops())
    except weave.WeaveError as e:
        res.reason = "weave: %s" % e
        res.wall_s = time.time() - t0
        return res
    except Exception as e:  # missing file etc.
        res.reason = "extract: %r" % e
        res.wall_s = time.time() - t0
        return res

    a_gb = os.path.join(wd, "a.gb")
    b_gb = os.path.join(wd, "b.gb")
    cc = ["goto-cc", "-std=c11", "-I" + os.path.join(wd, "include"), "-I" + wd, "-I" + VERIF,
          "-DPOLYSEED_VERIF", "-DPOLYSEED_STATIC", "--function", "harness"]
    cc.append("-fsigned-char" if char == "signed" else "-funsigned-char")
    if not u.asserts_on:
        cc.append("-DNDEBUG")
    if canary:
        cc.append("-DVERIF_CANARY")
    for d in u.defines:
        cc.append("-D" + d)
    cc.append(os.path.join(VERIF, u.harness))
    for s in u.extra_sources:
        cc.append(os.path.join(wd, s))
    cc += ["-o", a_gb]
    rc, so, se, to = sh(cc, cwd=wd, timeout=300)
    if (rc != 0 or not os.path.exists(a_gb)) and u.fallback_defines:
        # e.g. the doubling table was removed by a refactoring: contracts that only mention it as a
        # precondition are retried without that precondition
        cc2 = cc[:-2] + ["-D" + d for d in u.fallback_defines] + cc[-2:]
        rc, so, se, to = sh(cc2, cwd=wd, timeout=300)
        if rc == 0:
            cc = cc2
    if rc != 0 or not os.path.exists(a_gb):
        res.reason = "goto-cc failed: " + (se or so)[-1500:]
        res.log = se
        res.wall_s = time.time() - t0
        return res

    if u.replace_calls:
        c_gb = os.path.join(wd, "c.gb")
        rc_cmd = ["goto-instrument"]
        for a, b in u.replace_calls:
            rc_cmd += ["--replace-calls", "%s:%s" % (a, b)]
        rc_cmd += [a_gb, c_gb]
        rc, so, se, to = sh(rc_cmd, cwd=wd, timeout=300)
        if rc != 0 or not os.path.exists(c_gb):
            res.reason = "goto-instrument --replace-calls failed: " + (se or so)[-800:]
            res.wall_s = time.time() - t0
            return res
        os.replace(c_gb, a_gb)
    gi = None
    if u.mode == "D":
        gi = ["goto-instrument", "--dfcc", "harness", "--enforce-contract", u.enforce]
        for r in u.replace:
            gi += ["--replace-call-with-contract", r]
        if u.loops:
            gi.append("--apply-loop-contracts")
    elif u.mode == "L":
        gi = ["goto-instrument", "--dfcc", "harness"]
        for r in u.replace:
            gi += ["--replace-call-with-contract", r]
    elif u.mode == "H":
        if u.dfcc_loops or u.replace:
            gi = ["goto-instrument", "--dfcc", "harness"]
            for r in u.replace:
                gi += ["--replace-call-with-contract", r]
            if u.loops:
                gi.append("--apply-loop-contracts")
        elif u.loops:
            gi = ["goto-instrument", "--apply-loop-contracts"]
    if gi is not None:
        if u.no_nondet_static:
            pass
        gi += [a_gb, b_gb]
        rc, so, se, to = sh(gi, cwd=wd, timeout=600, mem_gb=u.mem_gb)
        if rc != 0 or not os.path.exists(b_gb):
            txt = (se or so)
            mo = re.search(r"<< EXTRA DIAGNOSTICS >>(.*?)<< END", txt, re.S)
            res.reason = "goto-instrument failed: " + (mo.group(1).strip() if mo else txt[-1500:])
            res.log = so + se
            res.wall_s = time.time() - t0
            return res
        target = b_gb
    else:
        target = a_gb

    cb = ["cbmc", target, "--json-ui", "--object-bits", str(u.object_bits),
          "--unwind", str(u.unwind), "--unwinding-assertions", "--verbosity", "8"]
    if not canary:
        cb.append("--trace")
    for us in u.unwindset:
        cb += ["--unwindset", us]
    if u.safety and not canary:
        cb += SAFETY_FLAGS
    cb += u.solver
    out_json = os.path.join(wd, "out.json")
    rc, so, se, to = sh(cb, cwd=wd, timeout=u.timeout, mem_gb=u.mem_gb, stdout_path=out_json)
    res.cmd = " | ".join(" ".join(x) for x in ([cc] + ([gi] if gi else []) + [cb])).replace(wd, "<extract>").replace(VERIF, "<verif>")
    if to:
        res.reason = "cbmc timeout after %ds" % u.timeout
        res.wall_s = time.time() - t0
        return res
    results, msgs, solver, verdict = parse_cbmc_json(out_json)
    res.solver_s = solver
    alltext = "\n".join(msgs)
    if results is None:
        res.reason = "cbmc produced no result (rc=%d): %s" % (rc, (alltext or se)[-1500:])
        res.wall_s = time.time() - t0
        return res
    if re.search(r"ignoring (forall|exists|quantif)", alltext):
        res.reason = "solver dropped a quantifier"
        res.wall_s = time.time() - t0
        return res
    res.obligations = len(results)
    fails = [r for r in results if r.get("status") == "FAILURE"]
    unknown = [r for r in results if r.get("status") not in ("SUCCESS", "FAILURE")]
    res.discharged = len(results) - len(fails) - len(unknown)
    # loop-contract obligations: named ones ("Check loop invariant ...", loop_invariant_base/step under dfcc) and the ones CBMC emits
    # without description or location for `for (;;)` loops (property <function>.<n>, description "assertion")
    lc_re = re.compile(r"^(%s)\.\d+$" % "|".join(re.escape(f) for f in u.loop_contracts)) if u.loop_contracts else None
    res.loop_obligations = sum(1 for r in results if "loop_invariant" in r.get("property", "")
                               or "loop invariant" in r.get("description", "").lower()
                               or "loop_decreases" in r.get("property", "")
                               or "loop_step" in r.get("property", "")
                               or (lc_re is not None and lc_re.match(r.get("property", "")) and r.get("description") == "assertion"))
    # samples: a few obligation names with source lines
    seen = 0
    for r in results:
        loc = r.get("sourceLocation", {})
        f = loc.get("file", "")
        if "/src/" in f or "harness" in f:
            res.samples.append({"obligation": r.get("property"), "description": r.get("description"),
                                "where": "%s:%s" % (os.path.basename(f), loc.get("line")),
                                "status": r.get("status")})
            seen += 1
            if seen >= 4:
                break
    for r in fails:
        loc = r.get("sourceLocation", {})
        res.failed.append({"property": r.get("property"), "description": r.get("description"),
                           "status": r.get("status"),
                           "location": "%s:%s %s" % (loc.get("file", "").replace(wd, "<extract>"),
                                                     loc.get("line"), loc.get("function")),
                           "inputs": trace_inputs(r.get("trace"))})
    if canary:
        # the canary assertion must FAIL; everything else is irrelevant here
        can = [r for r in results if "CANARY" in r.get("description", "")]
        res.canary_ok = bool(can) and all(r.get("status") == "FAILURE" for r in can)
        res.status = "pass" if res.canary_ok else "undecided"
        if not res.canary_ok:
            res.reason = "canary did not fail: preconditions are vacuous or canary missing"
    else:
        nobody = sorted(set(r.get("property", "").split(".no-body.")[-1] for r in fails if ".no-body." in r.get("property", "")))
        if nobody:
            # the code under proof calls a function this unit has neither a body nor a contract for (e.g. a helper newly added to
            # another source file): CBMC lets it return anything, so every other failure of this run may be an artefact
            res.status = "undecided"
            res.reason = "calls %s, for which this unit has no contract or body (new cross-file helper?): not decidable here" % ", ".join(nobody)
            res.failed = []
            res.wall_s = time.time() - t0
            return res
        real = [r for r in fails if ".unwind." not in r.get("property", "")
                and ".recursion" not in r.get("property", "")]
        if fails and not real:
            res.status = "undecided"
            res.reason = "unwinding assertion failed (bound %d too small for %s)" % (
                u.unwind, ", ".join(sorted(set(r.get("property", "") for r in fails))))
        elif fails:
            res.status = "fail"
            res.failed = [f for f in res.failed if ".unwind." not in f["property"]]
        elif unknown:
            res.status = "undecided"
            res.reason = "%d obligations UNKNOWN (e.g. %s)" % (len(unknown), unknown[0].get("property"))
        else:
            res.status = "pass"
            if u.loops and res.loop_obligations < max(1, u.expect_loop_obligations):
                res.status = "undecided"
                res.reason = "loop contract obligations missing (%d found)" % res.loop_obligations
    res.wall_s = time.time() - t0
    if not keep and res.status == "pass":
        shutil.rmtree(wd, ignore_errors=True)
    elif not keep:
        # keep only small artefacts
        for fn in ("a.gb", "b.gb"):
            try:
                os.remove(os.path.join(wd, fn))
            except OSError:
                pass
    return res
