#!/usr/bin/env python3
"""mkdesigntables.py -- (re)generate the seeded-change table and the refactoring-audit table of DESIGN.md section 12
between the marker comments <!-- SEEDTABLE --> ... <!-- /SEEDTABLE --> and <!-- REFACTORTABLE --> ... <!-- /REFACTORTABLE -->"""
import json, os, re, subprocess, sys
V = os.path.dirname(os.path.dirname(os.path.abspath(__file__)))
p = os.path.join(V, "DESIGN.md")
s = open(p).read()
seed = subprocess.run([sys.executable, os.path.join(V, "tools", "seedreport.py")], capture_output=True, text=True).stdout.strip()
rf = os.path.join(V, "seeded", "_refactor", "audit.json")
rows = ["| patch | what (first line of the author's note) | units FAIL | units UNDECIDED | engines FAIL |", "|---|---|---|---|---|"]
if os.path.exists(rf):
    for o in json.load(open(rf)):
        name = os.path.basename(o["patch"])[:-5]
        note = os.path.join(V, "seeded", "_refactor", name + ".md")
        first = ""
        if os.path.exists(note):
            for line in open(note, errors="replace"):
                line = line.strip().lstrip("#").strip()
                if line:
                    first = re.sub(r"[*`|]", "", line)[:120]; break
        und = sorted(set(u.split("[")[0] for u in o.get("undecided", [])))
        rows.append("| %s | %s | %s | %s | %s |" % (name, first, ", ".join(f.split(":")[0] for f in o.get("fail", [])) or "none",
                                                ", ".join(und) or "none", ", ".join(e.split(":")[0] for e in o.get("engines_fail", [])) or "none"))
    tot = len(rows) - 2
    nf = sum(1 for o in json.load(open(rf)) if o.get("fail") or o.get("engines_fail"))
    rows.append("")
    rows.append("%d refactorings: %d with a failing unit or engine (false alarm), %d with at least one undecided unit." % (
        tot, nf, sum(1 for o in json.load(open(rf)) if o.get("undecided"))))
def put(s, tag, body):
    a, b = "<!-- %s -->" % tag, "<!-- /%s -->" % tag
    if a in s:
        return re.sub(re.escape(a) + ".*?" + re.escape(b), a + "\n" + body + "\n" + b, s, flags=re.S)
    return s.replace(tag, a + "\n" + body + "\n" + b, 1)
s = put(s, "SEEDTABLE", seed)
s = put(s, "REFACTORTABLE", "\n".join(rows))
open(p, "w").write(s)
print("tables written")
