#!/usr/bin/env python3
"""seedreport.py -- markdown table of the seeded changes and what the checks report on them (from seeded/<id>/meta.json)"""
import glob, json, os, re
V = os.path.dirname(os.path.dirname(os.path.abspath(__file__)))
rows = []
for d in sorted(glob.glob(os.path.join(V, "seeded", "C*-*"))):
    m = json.load(open(os.path.join(d, "meta.json")))
    note = m.get("what_it_needs_to_manifest", "")
    first = ""
    for line in note.splitlines():
        line = line.strip().lstrip("#").strip()
        if line:
            first = re.sub(r"[*`|]", "", line)[:110]
            break
    pid = m["breaks_property"]
    own = (m.get("checks_run") or {}).get(pid) or {}
    verdict = {1: "caught", 0: "MISSED", 2: "undecided"}.get(own.get("exit"), "not run")
    obl = "; ".join(v.replace(" no-failing-input-found", "") for v in (own.get("violations") or [])[:2])[:120]
    nat = own.get("replayed_natively")
    rows.append("| %s | %d | %s | %s | %s | %s |" % (m["id"], m.get("round", 1), first, verdict, obl, "yes" if nat else ("no" if verdict == "caught" else "")))
print("| seed | round | change (first line of the author's note) | own property's check | failed obligations (first two) | replayed natively |")
print("|---|---|---|---|---|---|")
print("\n".join(rows))
tot = len(rows); caught = sum(1 for r in rows if "| caught |" in r); und = sum(1 for r in rows if "| undecided |" in r); nat = sum(1 for r in rows if r.rstrip().endswith("| yes |"))
print("\n%d seeded changes: %d caught by the check of the property they break, %d undecided, %d missed; %d of the caught ones with a native replay of a failing input" % (tot, caught, und, tot - caught - und - sum(1 for r in rows if '| not run |' in r), nat))
