#!/usr/bin/env python3
"""seedconfirm.py [Cxx ...] -- confirm the seeded changes under seeded/_incoming: in a scratch copy of /repo HEAD
(1) the demonstration passes on the unchanged tree, (2) the patch applies, the library builds and the
repository's test binary still passes, (3) the demonstration fails with the patch.  Prints one line per patch
and writes seeded/_incoming/<id>/confirm<N>.json."""
import glob, json, os, shutil, subprocess, sys, tempfile
from concurrent.futures import ThreadPoolExecutor
V = os.path.dirname(os.path.dirname(os.path.abspath(__file__)))
INC = os.path.join(V, "seeded", "_incoming")

def sh(cmd, cwd=None, timeout=900):
    try:
        p = subprocess.run(cmd, cwd=cwd, shell=isinstance(cmd, str), capture_output=True, text=True, errors="replace", timeout=timeout)
        return p.returncode, (p.stdout + p.stderr)[-1500:]
    except subprocess.TimeoutExpired:
        return 124, "timeout"

def build_demo(src_root, demo, incdir, out):
    srcs = sorted(glob.glob(os.path.join(src_root, "src", "*.c")))
    comp = "clang" if "tsan" in open(demo, errors="replace").read().lower() and False else "gcc"
    cmd = [comp, "-O1", "-w", "-pthread", "-I" + os.path.join(src_root, "include"), "-I" + incdir,
           "-DPOLYSEED_STATIC", demo] + srcs + ["-lutf8proc", "-lm", "-o", out]
    return sh(cmd, timeout=600)

def confirm(job):
    pid, n = job
    d = os.path.join(INC, pid)
    patch = os.path.join(d, "patch%d.diff" % n)
    demo = os.path.join(d, "demo%d.c" % n)
    res = {"property": pid, "patch": n}
    if not os.path.exists(patch) or not os.path.exists(demo):
        res["status"] = "missing files"; return res
    t = tempfile.mkdtemp(prefix="verif-sc.")
    try:
        for sub in ("src", "include", "tests"):
            shutil.copytree(os.path.join("/repo", sub), os.path.join(t, "a", sub))
        shutil.copy("/repo/CMakeLists.txt", os.path.join(t, "a"))
        shutil.copytree(os.path.join(t, "a"), os.path.join(t, "b"))
        rc, out = sh(["patch", "-p1", "-s", "--fuzz=3", "-d", os.path.join(t, "b"), "-i", patch])
        res["applies"] = rc == 0
        if rc != 0:
            res["status"] = "patch does not apply to HEAD: " + out[-200:]; return res
        # tests with patch
        rc, out = sh("cmake -S b -B bb -G Ninja -DCMAKE_BUILD_TYPE=Release >/dev/null 2>&1 && cmake --build bb 2>&1 | tail -3 && ./bb/polyseed-tests | tail -2", cwd=t)
        res["tests_pass_with_patch"] = "All tests were successful" in out
        script = os.path.join(d, "demo%d.sh" % n)
        if os.path.exists(script):
            # demonstration is a script that builds the library itself (e.g. twice, signed / unsigned char): W=<tree>
            for side in ("a", "b"):
                shutil.copytree(d, os.path.join(t, side, "_out"))
            rc_a, out_a = sh("W=%s sh %s" % (os.path.join(t, "a"), os.path.join(t, "a", "_out", "demo%d.sh" % n)), cwd=t, timeout=1200)
            rc_b, out_b = sh("W=%s sh %s" % (os.path.join(t, "b"), os.path.join(t, "b", "_out", "demo%d.sh" % n)), cwd=t, timeout=1200)
            res["demo_rc_unchanged"] = rc_a; res["demo_rc_patched"] = rc_b; res["demo_output_patched"] = out_b[-400:]
            ok = res["tests_pass_with_patch"] and rc_a == 0 and rc_b != 0
            res["status"] = "CONFIRMED" if ok else "NOT CONFIRMED"
            return res
        rc, out = build_demo(os.path.join(t, "a"), demo, d, os.path.join(t, "demo_a"))
        if rc != 0:
            res["status"] = "demo does not build: " + out[-300:]; return res
        rc_a, out_a = sh([os.path.join(t, "demo_a")], cwd=t, timeout=900)
        res["demo_rc_unchanged"] = rc_a
        rc, out = build_demo(os.path.join(t, "b"), demo, d, os.path.join(t, "demo_b"))
        if rc != 0:
            res["status"] = "demo does not build with patch: " + out[-300:]; return res
        rc_b, out_b = sh([os.path.join(t, "demo_b")], cwd=t, timeout=900)
        res["demo_rc_patched"] = rc_b
        res["demo_output_patched"] = out_b[-400:]
        ok = res["tests_pass_with_patch"] and rc_a == 0 and rc_b != 0
        res["status"] = "CONFIRMED" if ok else "NOT CONFIRMED"
        return res
    finally:
        shutil.rmtree(t, ignore_errors=True)

ids = sys.argv[1:] or sorted(x for x in os.listdir(INC) if x.startswith("C"))
jobs = [(i, n) for i in ids for n in (1, 2)]
with ThreadPoolExecutor(max_workers=6) as ex:
    for r in ex.map(confirm, jobs):
        json.dump(r, open(os.path.join(INC, r["property"], "confirm%d.json" % r["patch"]), "w"), indent=1)
        print(r["property"], r["patch"], r.get("status"), "tests=%s demo: %s -> %s" % (r.get("tests_pass_with_patch"), r.get("demo_rc_unchanged"), r.get("demo_rc_patched")))
