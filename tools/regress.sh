#!/bin/sh
# regress.sh [tier] -- run every property's check once, sequentially, on /repo as it is; print one line per property
tier=${1:-quick}
cd "$(dirname "$0")/.."
for p in C01 C02 C03 C04 C05 C06 C07 C08 C09 C10 C11 C12 C13 C14 C15 C16 C17 C18 C19 C20; do
  s=$(date +%s)
  ./check $p --tier $tier > regress_$p.log 2>&1; rc=$?
  e=$(date +%s)
  echo "$p rc=$rc wall=$((e-s))s $(grep -c '^VIOLATION' regress_$p.log) violations $(grep -c '^UNDECIDED' regress_$p.log) undecided"
  grep '^VIOLATION\|^UNDECIDED' regress_$p.log | cut -c1-300
done
