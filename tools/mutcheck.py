#!/usr/bin/env python3
"""mutcheck.py <mutant name> <property>... -- apply one mutant of mutants.py to a scratch copy and run ./check"""
import os, sys, shutil, subprocess, tempfile
V = os.path.dirname(os.path.dirname(os.path.abspath(__file__)))
sys.path.insert(0, V)
import mutants
mu = [m for m in mutants.M if m["name"] == sys.argv[1]][0]
d = tempfile.mkdtemp(prefix="verif-mut.")
for sub in ("src", "include"):
    shutil.copytree(os.path.join("/repo", sub), os.path.join(d, sub))
p = os.path.join(d, mu["file"]); s = open(p, encoding="utf-8").read(); assert mu["old"] in s
open(p, "w", encoding="utf-8").write(s.replace(mu["old"], mu["new"], 1))
for prop in sys.argv[2:]:
    r = subprocess.run([os.path.join(V, "check"), prop], env=dict(os.environ, VERIF_REPO=d), capture_output=True, text=True)
    print("rc=%d" % r.returncode); print("\n".join(l[:300] for l in r.stdout.splitlines() if not l.startswith("UNDECIDED"))[:3000])
shutil.rmtree(d, ignore_errors=True)
