#!/usr/bin/env python3
"""mutest.py [pattern] -- mutation audit: apply each mutant of mutants.py to a scratch copy of /repo
(src + include) and run the units that must kill it.  Never prints a VIOLATION line."""
import os, sys, shutil, fnmatch, time, json
from concurrent.futures import ThreadPoolExecutor
V = os.path.dirname(os.path.dirname(os.path.abspath(__file__)))
sys.path.insert(0, V); sys.path.insert(0, os.path.join(V, "tools"))
import units, vlib, mutants
pat = sys.argv[1] if len(sys.argv) > 1 else "*"
scratch = os.environ.get("VERIF_SCRATCH", "/tmp/verif-mutest.%d" % os.getpid())
def run(mu):
    d = os.path.join(scratch, mu["name"])
    shutil.rmtree(d, ignore_errors=True); os.makedirs(d)
    for sub in ("src", "include"):
        shutil.copytree(os.path.join(vlib.REPO, sub), os.path.join(d, sub))
    p = os.path.join(d, mu["file"]); s = open(p, encoding="utf-8").read()
    if mu["old"] not in s:
        return mu, "NOT-APPLICABLE (source text not found)", []
    open(p, "w", encoding="utf-8").write(s.replace(mu["old"], mu["new"], 1))
    out = []
    killed = False
    for un in mu["units"]:
        u = units.BY_NAME[un]
        for ch in u.chars:
            r = vlib.run_unit(u, ch, os.path.join(d, "work"), repo=d)
            out.append((un, ch, r.status, [f["property"] + " " + f["description"][:70] for f in r.failed[:3]], r.reason[:200]))
            if r.status == "fail": killed = True
    shutil.rmtree(d, ignore_errors=True)
    return mu, "KILLED" if killed else "SURVIVED", out
ms = [x for x in mutants.M if fnmatch.fnmatch(x["name"], pat)]
t0 = time.time()
with ThreadPoolExecutor(max_workers=int(os.environ.get("VERIF_JOBS", "8"))) as ex:
    res = list(ex.map(run, ms))
k = 0
for mu, verdict, out in res:
    print("%-22s %s" % (mu["name"], verdict)); k += verdict == "KILLED"
    for o in out: print("      ", o)
print("killed %d of %d in %.0fs" % (k, len(res), time.time() - t0))
shutil.rmtree(scratch, ignore_errors=True)
