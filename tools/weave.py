#!/usr/bin/env python3
"""weave.py -- mechanical extraction of /repo sources + insertion of specification-only text.

The verified text is the code that runs: every file of <repo>/src and <repo>/include is copied
byte for byte into the extract directory.  For the functions named in a weave request, the
following is INSERTED (nothing is deleted or rewritten):

  * loop clauses (__CPROVER_assigns / __CPROVER_loop_invariant / __CPROVER_decreases) between the
    closing ')' of the k-th for/while header of function f and the loop body;
  * a ghost statement VERIF_EXIT_<f>; in front of every `return` of f (the return is wrapped in a
    brace pair so that un-braced `if (c) return x;` keeps its meaning) and in front of the closing
    brace of f;
  * a ghost statement VERIF_ENTRY_<f>; right after the opening brace of f.

Every inserted span is bracketed by /*W[*/ ... /*]W*/.  After weaving, deleting all bracketed spans
must give back the original file byte for byte; otherwise WeaveError is raised (=> exit 2, never a
violation).  A function that is not found, or that does not have the recorded number of loops,
raises WeaveError as well.

loops.spec format:

    [loop <file> <function> <ordinal> <profile>]
    <clause lines...>
    [exit <file> <function> <profile>]
    [entry <file> <function> <profile>]

A unit asks for a set of profiles; the sections whose profile is in the set are applied.
"""
import os
import re
import shutil
import sys

OPEN = "/*W[*/"
CLOSE = "/*]W*/"


class WeaveError(Exception):
    pass


def mask_source(text):
    """Return text of the same length with comments, string/char literals and preprocessor
    lines replaced by spaces (newlines kept)."""
    out = list(text)
    i, n = 0, len(text)
    bol = True  # at beginning of line (only whitespace so far)

    def blank(a, b):
        for k in range(a, b):
            if out[k] != "\n":
                out[k] = " "

    while i < n:
        c = text[i]
        if c == "\n":
            bol = True
            i += 1
            continue
        if bol and c == "#":
            # preprocessor line with continuations
            j = i
            while j < n:
                k = text.find("\n", j)
                if k < 0:
                    k = n
                    break
                # continuation?
                if text[k - 1] == "\\" or (text[k - 1] == "\r" and text[k - 2] == "\\"):
                    j = k + 1
                    continue
                break
            blank(i, k)
            i = k
            continue
        if c in " \t\r":
            i += 1
            continue
        bol = False
        if text.startswith("/*", i):
            k = text.find("*/", i + 2)
            k = n if k < 0 else k + 2
            blank(i, k)
            i = k
            continue
        if text.startswith("//", i):
            k = text.find("\n", i)
            k = n if k < 0 else k
            blank(i, k)
            i = k
            continue
        if c == '"' or c == "'":
            q = c
            j = i + 1
            while j < n and text[j] != q:
                if text[j] == "\\":
                    j += 1
                j += 1
            blank(i, j + 1)
            i = j + 1
            continue
        i += 1
    return "".join(out)


def match_forward(m, i, open_c, close_c):
    depth = 0
    n = len(m)
    while i < n:
        if m[i] == open_c:
            depth += 1
        elif m[i] == close_c:
            depth -= 1
            if depth == 0:
                return i
        i += 1
    raise WeaveError("unbalanced %s%s" % (open_c, close_c))


def match_backward(m, i, open_c, close_c):
    depth = 0
    while i >= 0:
        if m[i] == close_c:
            depth += 1
        elif m[i] == open_c:
            depth -= 1
            if depth == 0:
                return i
        i -= 1
    raise WeaveError("unbalanced %s%s" % (open_c, close_c))


IDENT = re.compile(r"[A-Za-z_][A-Za-z_0-9]*")


def find_functions(text):
    """-> dict name -> (body_open_idx, body_close_idx) for function definitions at depth 0."""
    m = mask_source(text)
    funcs = {}
    depth = 0
    i, n = 0, len(m)
    while i < n:
        c = m[i]
        if c == "{":
            if depth == 0:
                # look back for ')'
                j = i - 1
                while j >= 0 and m[j] in " \t\r\n":
                    j -= 1
                if j >= 0 and m[j] == ")":
                    p = match_backward(m, j, "(", ")")
                    k = p - 1
                    while k >= 0 and m[k] in " \t\r\n":
                        k -= 1
                    e = k + 1
                    while k >= 0 and (m[k].isalnum() or m[k] == "_"):
                        k -= 1
                    name = m[k + 1:e]
                    if name and IDENT.fullmatch(name) and name not in ("if", "for", "while", "switch"):
                        close = match_forward(m, i, "{", "}")
                        funcs[name] = (i, close)
            depth += 1
        elif c == "}":
            depth -= 1
        i += 1
    return funcs, m


def find_loops(m, lo, hi):
    """-> list of insertion offsets (just after the ')' of each for/while header) inside m[lo:hi]."""
    res = []
    for mo in re.finditer(r"\b(for|while|do)\b", m[lo:hi]):
        kw = mo.group(1)
        pos = lo + mo.start()
        if kw == "do":
            raise WeaveError("do-while loops are not supported by the weaver")
        j = pos + len(kw)
        while m[j] in " \t\r\n":
            j += 1
        if m[j] != "(":
            raise WeaveError("loop keyword without '('")
        close = match_forward(m, j, "(", ")")
        res.append(close + 1)
    return res


def find_returns(m, lo, hi):
    """-> list of (start, end) offsets of `return ... ;` statements inside m[lo:hi]."""
    res = []
    for mo in re.finditer(r"\breturn\b", m[lo:hi]):
        s = lo + mo.start()
        e = m.find(";", s)
        if e < 0 or e > hi:
            raise WeaveError("return without ';'")
        res.append((s, e + 1))
    return res


def parse_spec(path):
    """-> list of dict(kind, file, function, ordinal, profile, text)"""
    secs = []
    cur = None
    with open(path, encoding="utf-8") as f:
        for line in f:
            s = line.rstrip("\n")
            if s.startswith("#") and cur is None:
                continue
            mo = re.match(r"^\[(loop|exit|entry)\s+(\S+)\s+(\S+)(?:\s+(\d+))?\s+(\S+)\]\s*$", s)
            if mo:
                kind, file, fn, ordinal, profile = mo.groups()
                if kind == "loop" and ordinal is None:
                    raise WeaveError("loop section without ordinal: " + s)
                cur = dict(kind=kind, file=file, function=fn,
                           ordinal=int(ordinal) if ordinal is not None else None,
                           profile=profile, text="")
                secs.append(cur)
                continue
            if cur is not None:
                if s.strip().startswith("##"):
                    continue
                cur["text"] += s + "\n"
    return secs


def weave_text(text, requests, relname):
    """requests: list of sections for this file.  -> woven text"""
    funcs, m = find_functions(text)
    inserts = []  # (offset, order, string)
    for r in requests:
        fn = r["function"]
        if fn not in funcs:
            raise WeaveError("%s: function %s not found" % (relname, fn))
        lo, hi = funcs[fn]
        if r["kind"] == "loop":
            loops = find_loops(m, lo, hi)
            want = r.get("nloops")
            if r["ordinal"] >= len(loops):
                raise WeaveError("%s: %s has %d loops, spec refers to loop %d"
                                 % (relname, fn, len(loops), r["ordinal"]))
            off = loops[r["ordinal"]]
            body = " ".join(l.strip() for l in r["text"].splitlines() if l.strip())
            inserts.append((off, 0, OPEN + " " + body + " " + CLOSE))
        elif r["kind"] == "exit":
            for (s, e) in find_returns(m, lo, hi):
                inserts.append((s, 0, OPEN + "{ VERIF_EXIT_%s; " % fn + CLOSE))
                inserts.append((e, 1, OPEN + "}" + CLOSE))
            inserts.append((hi, 0, OPEN + "VERIF_EXIT_%s; " % fn + CLOSE))
        elif r["kind"] == "entry":
            inserts.append((lo + 1, 0, OPEN + " VERIF_ENTRY_%s; " % fn + CLOSE))
    # loop-count guard: every function with loop sections must have all its loops covered or
    # explicitly fewer; recorded count check
    counts = {}
    for r in requests:
        if r["kind"] == "loop":
            counts.setdefault(r["function"], set()).add(r["ordinal"])
    inserts.sort(key=lambda t: (t[0], t[1]))
    out = []
    last = 0
    for off, _, s in inserts:
        out.append(text[last:off])
        out.append(s)
        last = off
    out.append(text[last:])
    woven = "".join(out)
    # reversibility check
    stripped = re.sub(re.escape(OPEN) + r".*?" + re.escape(CLOSE), "", woven, flags=re.S)
    if stripped != text:
        raise WeaveError("%s: weaving is not reversible" % relname)
    return woven


def count_loops(repo, relfile, fn):
    with open(os.path.join(repo, relfile), encoding="utf-8") as f:
        text = f.read()
    funcs, m = find_functions(text)
    if fn not in funcs:
        raise WeaveError("%s: function %s not found" % (relfile, fn))
    lo, hi = funcs[fn]
    return len(find_loops(m, lo, hi))


def extract(repo, dest, spec_sections, profiles, with_tables=False, expect_loops=None):
    """Copy <repo>/src and <repo>/include to dest and weave the sections whose profile is selected.
    expect_loops: dict (file, function) -> number of loops recorded for the pinned tree."""
    os.makedirs(os.path.join(dest, "src"), exist_ok=True)
    os.makedirs(os.path.join(dest, "include"), exist_ok=True)
    for sub in ("src", "include"):
        for name in sorted(os.listdir(os.path.join(repo, sub))):
            p = os.path.join(repo, sub, name)
            if not os.path.isfile(p):
                continue
            if name.startswith("lang_") and not with_tables:
                continue
            shutil.copyfile(p, os.path.join(dest, sub, name))
    by_file = {}
    for s in spec_sections:
        if s["profile"] in profiles:
            by_file.setdefault(s["file"], []).append(s)
    woven = []
    for rel, reqs in by_file.items():
        path = os.path.join(dest, rel)
        with open(os.path.join(repo, rel), encoding="utf-8") as f:
            text = f.read()
        if expect_loops:
            funcs, m = find_functions(text)
            for r in reqs:
                key = (rel, r["function"])
                if r["kind"] == "loop" and key in expect_loops:
                    if r["function"] not in funcs:
                        raise WeaveError("%s: function %s not found" % (rel, r["function"]))
                    lo, hi = funcs[r["function"]]
                    nl = len(find_loops(m, lo, hi))
                    if nl != expect_loops[key]:
                        raise WeaveError("%s: %s now has %d loops, %d recorded"
                                         % (rel, r["function"], nl, expect_loops[key]))
        new = weave_text(text, reqs, rel)
        with open(path, "w", encoding="utf-8") as f:
            f.write(new)
        woven.append(rel)
    return woven


if __name__ == "__main__":
    # debugging aid: weave.py <repo> <dest> <spec> profile...
    repo, dest, spec = sys.argv[1:4]
    secs = parse_spec(spec)
    print(extract(repo, dest, secs, set(sys.argv[4:])))
