#!/usr/bin/env python3
"""mkmanifest.py -- write /verif/MANIFEST.json from propdefs.py (single source of truth)"""
import json, os, sys
V = os.path.dirname(os.path.dirname(os.path.abspath(__file__)))
sys.path.insert(0, V); sys.path.insert(0, os.path.join(V, "tools"))
import propdefs, units
props = [json.loads(l) for l in open(os.path.join(V, "properties.jsonl"))]
checks = []
na = []
for p in props:
    pid = p["id"]
    if pid in propdefs.PROPS:
        d = propdefs.PROPS[pid]
        checks.append({
            "property_id": pid,
            "quick_cmd": "./check %s --tier quick" % pid,
            "thorough_cmd": "./check %s --tier thorough" % pid,
            "evidence_file": "/verif/evidence/%s.json" % pid,
            "replay_cmd_template": "./check --replay {path}",
            "engine": "cbmc-contracts",
            "level_claimed": {"category": d.get("level", "proof"), "text": d["text"], "design_ref": "DESIGN.md section " + d.get("design_ref", "7")},
            "level_note": d.get("note", ""),
            "technique": d.get("technique", propdefs.TECH),
        })
    else:
        na.append({"property_id": pid, "reason": propdefs.NOT_APPLICABLE.get(pid, "check not built yet in this session; no claim is made")})
m = {
    "version": 1,
    "setup_cmd": "./tools/setup.sh",
    "hooks": {
        "guard": "POLYSEED_VERIF",
        "enable": "no source hooks: harness translation units #include the real /repo sources (extracted on every run) and are compiled by goto-cc with -DPOLYSEED_VERIF; nothing in /repo tests the define",
        "baseline_off_cmd": "cmake -S /repo -B /repo/_build -G Ninja >/dev/null && cmake --build /repo/_build >/dev/null && /repo/_build/polyseed-tests",
        "source_commits": propdefs.HOOK_COMMITS,
        "add_only": True,
    },
    "engines": [
        {"name": "cbmc-contracts", "path": "/verif/check", "serves_properties": [c["property_id"] for c in checks],
         "kind_free_text": "contract-based deductive verification of the real C sources: CBMC 6.11 function contracts (dfcc), woven loop contracts, lemma harnesses; native exhaustive evaluation of closed word-list obligations; goto symbol-table static facts"},
    ],
    "checks": checks,
    "notes": propdefs.NOTES,
    "not_applicable": na,
}
json.dump(m, open(os.path.join(V, "MANIFEST.json"), "w"), indent=1)
print("claimed:", [c["property_id"] for c in checks]); print("not claimed:", [n["property_id"] for n in na])
