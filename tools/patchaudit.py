#!/usr/bin/env python3
"""patchaudit.py <patch.diff>... -- apply each patch to a scratch copy of /repo (src+include) and run EVERY quick unit once
(no canaries) plus the table / statics / calls engines against it.  Prints, per patch, the units that FAIL (would be
reported as VIOLATION by every property that lists them) and those that are UNDECIDED.  Used for two audits:
behaviour-preserving refactorings must give no FAIL (false-alarm audit); seeded breaking changes must give one."""
import json, os, shutil, subprocess, sys, tempfile, time
from concurrent.futures import ThreadPoolExecutor
V = os.path.dirname(os.path.dirname(os.path.abspath(__file__)))
sys.path.insert(0, V); sys.path.insert(0, os.path.join(V, "tools"))
import vlib, units, engines, propdefs

def audit(patch):
    d = tempfile.mkdtemp(prefix="verif-pa.")
    out = {"patch": patch, "fail": [], "undecided": [], "engines_fail": [], "engines_undecided": []}
    try:
        for sub in ("src", "include"):
            shutil.copytree(os.path.join("/repo", sub), os.path.join(d, sub))
        r = subprocess.run(["patch", "-p1", "-s", "--fuzz=3", "-d", d, "-i", os.path.abspath(patch)], capture_output=True, text=True)
        if r.returncode != 0:
            out["error"] = "patch does not apply: " + (r.stdout + r.stderr)[-200:]
            return out
        vlib.REPO = d
        claimed = set()
        for p in propdefs.PROPS.values():
            claimed.update(p.get("units", []))
        jobs = [(u, ch) for u in units.UNITS if u.quick and u.name in claimed for ch in u.chars]
        work = os.path.join(d, "work")
        t0 = time.time()
        with ThreadPoolExecutor(max_workers=int(os.environ.get("VERIF_JOBS", "14"))) as ex:
            res = list(ex.map(lambda j: (j, vlib.run_unit(j[0], j[1], work, repo=d)), jobs))
        for (u, ch), r in res:
            if r.status == "fail":
                out["fail"].append("%s[%s]: %s" % (u.name, ch, "; ".join("%s %s" % (f["property"], f["description"][:70]) for f in r.failed[:3])))
            elif r.status == "undecided":
                out["undecided"].append("%s[%s]: %s" % (u.name, ch, r.reason[:160]))
        for en, prop in (("tables", "C19"), ("tables", "C07"), ("tables", "C17"), ("tables", "C08"), ("tables", "C01"), ("statics", "C13"), ("calls", "C18"), ("locals", "C16"), ("encwords", "C03")):
            for er in engines.run(en, prop, "quick", work):
                if er["status"] == "fail" and not er["name"].startswith("T.short_prefix"):   # open known finding on the unchanged tree
                    out["engines_fail"].append("%s: %s" % (er["name"], er.get("detail", "")[:120]))
                elif er["status"] == "undecided":
                    out["engines_undecided"].append("%s: %s" % (er["name"], er.get("detail", "")[:120]))
        out["engines_fail"] = sorted(set(out["engines_fail"])); out["wall_s"] = round(time.time() - t0)
        out["units_run"] = len(jobs)
    finally:
        shutil.rmtree(d, ignore_errors=True)
    return out

if __name__ == "__main__":
    outs = []
    args = [a for a in sys.argv[1:] if not a.startswith("--out=")]
    outp = [a[6:] for a in sys.argv[1:] if a.startswith("--out=")]
    for p in args:
        o = audit(p)
        outs.append(o)
        print(json.dumps(o, indent=1), flush=True)
        if outp:
            json.dump(outs, open(outp[0], "w"), indent=1)
