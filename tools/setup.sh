#!/bin/sh
# setup: nothing is fetched or built ahead of time; verify the pre-installed tools are present.
set -e
cbmc --version >/dev/null
goto-cc --version >/dev/null
goto-instrument --version >/dev/null
gcc --version >/dev/null
python3 -c "import json" 
echo "setup ok: cbmc $(cbmc --version)"
