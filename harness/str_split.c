/* unit U.str.split (C09, C14): str_split against its FUNCTIONAL contract, unbounded in the string
 * length (woven inductive invariants on both loops), for every NUL-terminated polyseed_str.
 * With O = the original buffer, t = min(ret, 16) the number of stored tokens, S_j = offset of words[j]:
 *   ret == 0  <=>  O is the empty string;        S_0 == 0
 *   consecutive tokens: S_{j+1} > S_j, O[S_{j+1}-1] is a space that was overwritten with NUL, and no
 *     space/NUL occurs in O[S_j .. S_{j+1}-2]   (token j is exactly the run up to the next single space;
 *     an empty run is a token)
 *   after the last stored token: end of string, or ONE space and end of string (ret <= 16), or -- only
 *     when 16 tokens are stored -- a space followed by more text, and then ret == 17
 *   the buffer changes only by turning those separators into NULs; nothing after the scan position,
 *   no entry of words[] at or beyond t, is written. */
#include "contracts/prelude.h"
#include "contracts/ghost_str.h"
#include "src/polyseed.c"
#include "contracts/spec.h"

#define BO(p) VOFF((p), buf)

void harness(void) {
    GHOST_INDICES_ARBITRARY();
    polyseed_str buf;
    polyseed_phrase words;
    const char* sentinel = (const char*)&g_j;   /* marks "never written" */
    for (int i = 0; i < POLYSEED_NUM_WORDS; ++i) words[i] = sentinel;
    __CPROVER_assume(g_in_len < POLYSEED_STR_SIZE && buf[g_in_len] == '\0');
    __CPROVER_assume(g_k < POLYSEED_STR_SIZE && g_j < POLYSEED_NUM_WORDS);
    for (int i = 0; i < POLYSEED_STR_SIZE; ++i) g_orig[i] = buf[i];
    g_snap_word = sentinel;
    __CPROVER_assume(g_split_exits == 0);

    int r = str_split(buf, words);
    CANARY();

    size_t E = g_exit_pos;
    int t = r < POLYSEED_NUM_WORDS ? r : POLYSEED_NUM_WORDS;
    __CPROVER_assert(g_split_exits == 1, "str_split: one exit");
    __CPROVER_assert(r >= 0 && r <= POLYSEED_NUM_WORDS + 1, "str_split: 0 <= count <= 17");
    __CPROVER_assert((r == 0) == (O(0) == '\0'), "str_split: count 0 iff the string is empty");
    __CPROVER_assert(buf[g_in_len] == '\0', "str_split: terminator preserved");
    __CPROVER_assert(buf[g_k] == O(g_k) || (O(g_k) == ' ' && buf[g_k] == '\0' && g_k < E),
        "str_split: buffer changes only by turning scanned spaces into NULs");
    if ((int)g_j < t) {
        __CPROVER_assert(__CPROVER_same_object(words[g_j], buf) && BO(words[g_j]) <= g_in_len,
            "str_split: every stored token pointer lies inside the string");
    } else {
        __CPROVER_assert(words[g_j] == sentinel, "str_split: entries at and beyond the count are not written");
    }
    if (r >= 1) {
        __CPROVER_assert(words[0] == buf, "str_split: first token starts at the beginning");
    }
    if ((int)g_j + 1 < t) {
        size_t s0 = BO(words[g_j]), s1 = BO(words[g_j + 1]);
        __CPROVER_assert(s1 >= s0 + 1 && O(s1 - 1) == ' ' && buf[s1 - 1] == '\0',
            "str_split: consecutive tokens are separated by exactly one consumed space");
        __CPROVER_assert(!(s0 <= g_k && g_k + 1 < s1) || NOSEP(O(g_k)),
            "str_split: a token contains no space and no NUL");
    }
    if (r >= 1) {
        size_t s = BO(words[t - 1]);
        _Bool ended_by_space = (E >= s + 1 && O(E - 1) == ' ' && buf[E - 1] == '\0'
            && (!(s <= g_k && g_k + 1 < E) || NOSEP(O(g_k))));
        _Bool ended_by_nul = (E >= s && O(E) == '\0' && (!(s <= g_k && g_k < E) || NOSEP(O(g_k))));
        __CPROVER_assert(ended_by_space || ended_by_nul, "str_split: last token ends at a space or at the terminator");
        __CPROVER_assert(r != POLYSEED_NUM_WORDS + 1 || (ended_by_space && O(E) != '\0'),
            "str_split: count 17 only when text follows the 16th token's separator");
        __CPROVER_assert(r == POLYSEED_NUM_WORDS + 1 || O(E) == '\0',
            "str_split: otherwise nothing but at most one trailing space follows the last token");
    }
}
