/* unit U.gf.mul2: gf_elem_mul2 == multiplication by x in GF(2)[x]/(x^11+x^2+1), all 2048 elements */
#include "contracts/prelude.h"
#include "src/gf.c"
#include "contracts/spec.h"
#include "contracts/gf.h"

void harness(void) {
    gf_elem x;
    gf_elem r = gf_elem_mul2(x);
    CANARY();
}
