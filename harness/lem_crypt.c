/* lemmas L.crypt.* (C12, C04) over the postcondition predicate of polyseed_crypt (contracts/crypt.h):
 *   INVOLUTION : canonical s, any mask m:  post(s,s1,m) && post(s1,s2,m)  =>  s2 == s bit for bit
 *   WRONGPW    : canonical s, masks m != m':  post(s,s1,m) && post(s1,s2,m')  =>  s2 is canonical (a well-formed seed) */
#include "contracts/prelude.h"
#include "src/storage.h"
#include "src/gf.h"
#include "contracts/spec.h"
#include "contracts/gf.h"
#include "contracts/crypt.h"

void harness(void) {
    polyseed_data s, s1, s2;
    uint8_t m[32], m2[32];
    __CPROVER_assume(spec_canonical_v(s));
    __CPROVER_assume(spec_crypt_post(s, s1, m));
#ifdef LEMMA_WRONGPW
    __CPROVER_assume(spec_crypt_post(s1, s2, m2));
    CANARY();
    __CPROVER_assert(spec_canonical_v(s2), "L.crypt.wrongpw: a wrong password still yields a canonical seed");
    __CPROVER_assert(s2.birthday == s.birthday && ((s2.features ^ s.features) & 15u) == 0 && s2.features == s.features, "L.crypt.wrongpw: birthday, features and flag as after two applications");
#else
    __CPROVER_assume(spec_crypt_post(s1, s2, m));
    CANARY();
    __CPROVER_assert(spec_canonical_v(s1), "L.crypt.involution: the intermediate seed is canonical");
    __CPROVER_assert((s1.features ^ s.features) == 16u && s1.birthday == s.birthday, "L.crypt.involution: one application toggles exactly the encrypted flag");
    __CPROVER_assert(s2.birthday == s.birthday && s2.features == s.features && s2.checksum == s.checksum
        && spec_eq_bytes32x(s2.secret, s.secret), "L.crypt.involution: applying the same mask twice restores the seed bit for bit");
#endif
}
