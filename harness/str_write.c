/* unit U.str.write (C03, C17): write_str against its contract, unbounded in the string length
 * (woven inductive invariant), for every source string of length len and every cursor offset S in a
 * polyseed_str with S + len < POLYSEED_STR_SIZE (room for a terminator):
 *   the cursor advances by exactly len; destination[S .. S+len) == source[0 .. len), none of them NUL;
 *   every other byte of the destination is unchanged; the source is not written. */
#include "contracts/prelude.h"
#include "contracts/ghost_str.h"
#include "src/polyseed.c"
#include "contracts/spec.h"

#ifndef SRC_OBJ
#define SRC_OBJ POLYSEED_STR_SIZE     /* size of the source string object; the loop itself is closed by invariant */
#endif
static size_t h_len;
size_t verif_strlen_ghost(const char* s) { return h_len; }

void harness(void) {
    GHOST_INDICES_ARBITRARY();
    h_len = nondet_size();
    polyseed_str buf, snap;
    size_t S = nondet_size(), n = SRC_OBJ;
    char src[SRC_OBJ];
    __CPROVER_assume(h_len < n && src[h_len] == '\0');
    __CPROVER_assume(__CPROVER_forall { size_t k; (k < SRC_OBJ) ==> (k >= h_len || src[k] != '\0') });
    __CPROVER_assume(S < POLYSEED_STR_SIZE && S + h_len < POLYSEED_STR_SIZE);
    for (int i = 0; i < POLYSEED_STR_SIZE; ++i) snap[i] = buf[i];
    __CPROVER_assume(g_k < POLYSEED_STR_SIZE);
    char src_k = (g_k < n) ? src[g_k] : 0;
    char* pos = buf + S;

    write_str(&pos, src);
    CANARY();

    __CPROVER_assert(pos == buf + S + h_len, "write_str: cursor advanced by exactly strlen(str)");
    __CPROVER_assert(!(g_k >= S && g_k < S + h_len) || buf[g_k] == src[g_k - S], "write_str: bytes written equal the string");
    __CPROVER_assert((g_k >= S && g_k < S + h_len) || buf[g_k] == snap[g_k], "write_str: nothing outside [cursor, cursor+len) changes");
    __CPROVER_assert(g_k >= n || src[g_k] == src_k, "write_str: source unchanged");
}
