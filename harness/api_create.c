/* unit: polyseed_create against its contract (contracts/api.h), dependency stubs with ghost logs */
#include "harness/api_common.h"

void harness(void) {
    deps_install();
    unsigned features; polyseed_data** seed_out;
    polyseed_status r = polyseed_create(features, seed_out);
    CANARY();
}
