/* unit: birthday_encode against its contract (src/storage.c) */
#include "contracts/prelude.h"
#include "src/storage.c"
#include "contracts/spec.h"
#include "contracts/misc.h"
void harness(void) {
    uint64_t t;
    unsigned k = birthday_encode(t);
    CANARY();
}
