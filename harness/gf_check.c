/* unit U.gf.check: gf_poly_check <=> spec evaluation is zero */
#include "contracts/prelude.h"
#include "src/gf.c"
#include "contracts/spec.h"
#include "contracts/gf.h"

void harness(void) {
    const gf_poly* p;
    bool r = gf_poly_check(p);
    CANARY();
}
