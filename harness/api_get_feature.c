/* unit: polyseed_get_feature against its contract (contracts/api.h), dependency stubs with ghost logs */
#include "harness/api_common.h"

void harness(void) {
    deps_install();
    const polyseed_data* seed; unsigned m;
    unsigned r = polyseed_get_feature(seed, m);
    CANARY();
}
