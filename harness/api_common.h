/* api_common.h -- one translation unit with the real API and feature sources plus all contracts */
#include "contracts/prelude.h"
#include "src/features.c"
#include "src/polyseed.c"
#include "contracts/spec.h"
#include "contracts/gf.h"
#include "contracts/storage.h"
#define VERIF_HAVE_FEATURES_C
#include "contracts/misc.h"
#include "stubs/deps.h"
#include "contracts/api.h"
