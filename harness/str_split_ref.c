/* unit B.str.split_ref (C09) -- BOUNDED: functional equivalence of str_split with the reference
 * tokeniser of DESIGN.md section 4, for every NUL-terminated buffer of at most SPLIT_BUF bytes:
 * tokens are the runs between single ASCII spaces; an empty run is a token; one trailing space
 * after a token produces no further token; a 17th token gives count 17; token j is the NUL-terminated
 * text of the j-th run. */
#include "contracts/prelude.h"
#include "contracts/ghost_str.h"
#include "src/polyseed.c"

#ifndef SPLIT_BUF
#define SPLIT_BUF 40
#endif

void harness(void) {
    GHOST_INDICES_ARBITRARY();
    char buf[SPLIT_BUF];
    char orig[SPLIT_BUF];
    polyseed_phrase words;
    buf[SPLIT_BUF - 1] = '\0';
    for (int i = 0; i < SPLIT_BUF; ++i) orig[i] = buf[i];

    /* reference tokeniser, one pass over the original */
    int ref_count = 0;
    int ref_start[POLYSEED_NUM_WORDS + 1];
    int ref_end[POLYSEED_NUM_WORDS + 1];
    int i = 0;
    _Bool more = (orig[0] != '\0');
    for (int t = 0; t < POLYSEED_NUM_WORDS + 1; ++t) {
        if (!more) break;
        ref_start[t] = i;
        while (orig[i] != '\0' && orig[i] != ' ') ++i;
        ref_end[t] = i;
        ref_count = t + 1;
        if (orig[i] == ' ') { ++i; more = (orig[i] != '\0'); }
        else more = 0;
    }

    int r = str_split(buf, words);
    CANARY();

    __CPROVER_assert(r == ref_count, "split_ref: token count equals the reference (17 = too many)");
    for (int t = 0; t < POLYSEED_NUM_WORDS; ++t) {
        if (t < r) {
            __CPROVER_assert(words[t] == buf + ref_start[t], "split_ref: token t starts where the reference token starts");
            __CPROVER_assert(buf[ref_end[t]] == '\0', "split_ref: token t is terminated where the reference token ends");
        }
    }
    size_t k = nondet_size();
    __CPROVER_assume(k < SPLIT_BUF);
    __CPROVER_assert(buf[k] == orig[k] || (orig[k] == ' ' && buf[k] == '\0'), "split_ref: only separators are overwritten");
}
