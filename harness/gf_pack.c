/* unit U.gf.pack: polyseed_data_to_poly produces exactly the published layout; coeff[0] untouched */
#include "contracts/prelude.h"
#include "src/gf.c"
#include "contracts/spec.h"
#include "contracts/gf.h"

void harness(void) {
    const polyseed_data* d;
    gf_poly* p;
    polyseed_data_to_poly(d, p);
    CANARY();
}
