/* unit U.dep.inject (C18, C13): polyseed_inject from an ARBITRARY previous table (dfcc havocs the static):
 * the five mandatory entries are copied; time/alloc/free are the given functions, or stdlib_time / malloc /
 * free exactly when the given entry is NULL (whatever the previous entry was); only polyseed_deps is
 * assigned; the caller's struct is not written.  The debug self-test is replaced by no-op contracts (its
 * content is re-established by the closed word-list obligations). */
#include "contracts/prelude.h"
#include "src/dependency.c"

int polyseed_get_num_langs(void)
    __CPROVER_ensures(__CPROVER_return_value == 10)
    __CPROVER_assigns();
const polyseed_lang* polyseed_get_lang(int i)
    __CPROVER_requires(i >= 0 && i < 10)
    __CPROVER_ensures(1)
    __CPROVER_assigns();
void polyseed_lang_check(const polyseed_lang* lang)
    __CPROVER_requires(1)
    __CPROVER_ensures(1)
    __CPROVER_assigns();

void polyseed_inject(const polyseed_dependency* deps)
    __CPROVER_requires(__CPROVER_is_fresh(deps, sizeof(*deps)))
    __CPROVER_requires(deps->randbytes != NULL && deps->pbkdf2_sha256 != NULL && deps->memzero != NULL
        && deps->u8_nfc != NULL && deps->u8_nfkd != NULL)
    __CPROVER_assigns(polyseed_deps)
    __CPROVER_ensures(polyseed_deps.randbytes == deps->randbytes && polyseed_deps.pbkdf2_sha256 == deps->pbkdf2_sha256
        && polyseed_deps.memzero == deps->memzero && polyseed_deps.u8_nfc == deps->u8_nfc && polyseed_deps.u8_nfkd == deps->u8_nfkd)
    __CPROVER_ensures(polyseed_deps.time == (deps->time != NULL ? deps->time : &stdlib_time))
    __CPROVER_ensures(polyseed_deps.alloc == (deps->alloc != NULL ? deps->alloc : &malloc))
    __CPROVER_ensures(polyseed_deps.free == (deps->free != NULL ? deps->free : &free));

void harness(void) {
    const polyseed_dependency* deps;
    polyseed_inject(deps);
    CANARY();
}
