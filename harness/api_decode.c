/* units U.api.decode / U.api.decode_explicit (C01, C02, C05, C09, C10, C13, C14, C15, C16):
 * polyseed_decode and polyseed_decode_explicit against their contract, harness-enforced (mode H).
 * Callees are replaced by CONTRACT STUBS (assert requires, havoc assigns, assume ensures, record ghost
 * observations); each stub's contract is proved on the real callee in its own unit:
 *   utf8_nfkd_lazy      -> U.str.nfkd_lazy        str_split           -> U.str.split
 *   polyseed_phrase_decode[_explicit] -> U.lang.phrase_decode[_explicit]
 *   gf_poly_check       -> U.gf.check             polyseed_poly_to_data -> U.gf.unpack
 * polyseed_features_supported and polyseed_free run as real code (U.ft.supported, U.api.free).
 *
 * Contract: with r = token count, (st, idx, L) = outcome of the phrase decoder, c = idx with the coin
 * XORed into c[1]:
 *   r != 16                    -> ERR_NUM_WORDS, the word search is not consulted
 *   st != OK                   -> st (ERR_LANG / ERR_MULT_LANG)
 *   eval(c) != 0               -> ERR_CHECKSUM          -- and in these three cases the allocator is not called
 *   allocator returns NULL     -> ERR_MEMORY
 *   features(c) & reserved     -> ERR_UNSUPPORTED, the block was wiped and freed exactly once
 *   otherwise                  -> OK, *seed_out is the live block, its fields are unpack(c), it is canonical
 *   every non-OK status leaves *seed_out untouched and nothing live; str_tmp, words, poly are wiped
 *   through the injected memzero on every exit; the input string is not written. */
#include "contracts/prelude.h"
/* assertions that depend on the woven exit recording (C16); when the woven text no longer fits the function
   (refactored locals) the unit is re-run without it (-DVERIF_NOWEAVE): those assertions are then undecided,
   every other clause of the contract is still checked */
#ifdef VERIF_NOWEAVE
#define XA(c, m) ((void)0)
#else
#define XA(c, m) __CPROVER_assert(c, m)
#endif
#include "contracts/ghost_str.h"
#include "src/features.c"
#include "src/polyseed.c"
#include "contracts/spec.h"
#include "contracts/gf.h"
#include "contracts/decode.h"
#include "stubs/deps.h"

/* ---- ghost inputs chosen by the stubs ---- */
static unsigned h_lazy_calls; static const char* h_lazy_in; static char* h_lazy_out; static size_t h_lazy_ret;
static char h_lazy_at_k;   /* byte g_k (arbitrary but fixed index) of the normalised phrase as utf8_nfkd_lazy returned it */
static unsigned h_split_calls; static int h_split_ret;
static unsigned h_pd_calls; static polyseed_status h_pd_status; static uint_fast16_t h_pd_idx[POLYSEED_NUM_WORDS];
static const polyseed_lang* h_pd_lang; static const polyseed_lang** h_pd_arg_lang_out; static const polyseed_lang* h_pd_arg_lang;
static uint_fast16_t* h_pd_arg_idx;
static unsigned h_unpack_calls;
static polyseed_lang h_some_lang;

size_t contract_nfkd_lazy(const char* str, polyseed_str norm) {
    h_lazy_calls++; h_lazy_in = str; h_lazy_out = norm;
    __CPROVER_assert(__CPROVER_w_ok(norm, POLYSEED_STR_SIZE), "utf8_nfkd_lazy.requires: norm is a polyseed_str");
    __CPROVER_havoc_slice(norm, POLYSEED_STR_SIZE);
    size_t r = nondet_size();
    __CPROVER_assume(r < POLYSEED_STR_SIZE);
    norm[r] = '\0';
    h_lazy_ret = r;
    h_lazy_at_k = (g_k < POLYSEED_STR_SIZE) ? norm[g_k] : 0;
    return r;
}

int contract_str_split(char* str, polyseed_phrase words) {
    h_split_calls++;
    __CPROVER_assert(str == h_lazy_out && str[h_lazy_ret] == '\0', "str_split.requires: a NUL-terminated polyseed_str");
    __CPROVER_assert(g_k >= POLYSEED_STR_SIZE || str[g_k] == h_lazy_at_k, "decode: the tokeniser receives the normalised phrase unmodified (arbitrary position): nothing is trimmed, collapsed or rewritten in between");
    int r = nondet_int();
    __CPROVER_assume(r >= 0 && r <= POLYSEED_NUM_WORDS + 1);
    /* assigns: the string up to its terminator (spaces -> NUL), words[0 .. min(r,16)) */
    if (h_lazy_ret > 0) __CPROVER_havoc_slice(str, h_lazy_ret);
    for (int i = 0; i < POLYSEED_NUM_WORDS; ++i) {
        if (i < r) {
            size_t off = nondet_size();
            __CPROVER_assume(off <= h_lazy_ret);
            words[i] = str + off;
        }
    }
    h_split_ret = r;
    return r;
}

static void phrase_stub_common(const polyseed_phrase phrase, uint_fast16_t idx_out[POLYSEED_NUM_WORDS]) {
    h_pd_calls++;
    h_pd_arg_idx = idx_out;
    for (int i = 0; i < POLYSEED_NUM_WORDS; ++i)
        __CPROVER_assert(__CPROVER_same_object(phrase[i], h_lazy_out), "phrase decoder.requires: 16 token pointers into the normalised string");
    polyseed_status st = nondet_int();
    h_pd_status = st;
    if (st == POLYSEED_OK) {
        for (int i = 0; i < POLYSEED_NUM_WORDS; ++i) {
            uint_fast16_t v = nondet_unsigned();
            __CPROVER_assume(v < 2048);
            h_pd_idx[i] = v;
            idx_out[i] = v;
        }
    }
}

polyseed_status polyseed_phrase_decode(const polyseed_phrase phrase, uint_fast16_t idx_out[POLYSEED_NUM_WORDS],
    const polyseed_lang** lang_out) {
    phrase_stub_common(phrase, idx_out);
    __CPROVER_assume(h_pd_status == POLYSEED_OK || h_pd_status == POLYSEED_ERR_LANG || h_pd_status == POLYSEED_ERR_MULT_LANG);
    h_pd_arg_lang_out = lang_out;
    if (h_pd_status == POLYSEED_OK && lang_out != NULL) *lang_out = h_pd_lang;
    return h_pd_status;
}

polyseed_status polyseed_phrase_decode_explicit(const polyseed_phrase phrase, const polyseed_lang* lang,
    uint_fast16_t idx_out[POLYSEED_NUM_WORDS]) {
    phrase_stub_common(phrase, idx_out);
    __CPROVER_assume(h_pd_status == POLYSEED_OK || h_pd_status == POLYSEED_ERR_LANG);
    h_pd_arg_lang = lang;
    return h_pd_status;
}

bool contract_gf_poly_check(const gf_poly* message) {
    __CPROVER_assert(COEFFS_OK(message), "gf_poly_check.requires: coefficients < 2048");
    return spec_eval_poly(message) == 0;
}

void polyseed_poly_to_data(const gf_poly* poly, polyseed_data* data) {
    h_unpack_calls++;
    __CPROVER_assert(COEFFS_OK(poly), "polyseed_poly_to_data.requires: coefficients < 2048");
    __CPROVER_assert(__CPROVER_w_ok(data, sizeof(*data)), "polyseed_poly_to_data.requires: data writable");
    __CPROVER_havoc_object(data);
    __CPROVER_assume(spec_unpack_matches(*poly, *data) && spec_shape_v(*data));
}

void polyseed_data_to_poly(const polyseed_data* data, gf_poly* poly) { __CPROVER_assert(0, "unexpected call: polyseed_data_to_poly"); }
void polyseed_data_store(const polyseed_data* data, polyseed_storage storage) { __CPROVER_assert(0, "unexpected call"); }
polyseed_status polyseed_data_load(const polyseed_storage storage, polyseed_data* data) { __CPROVER_assert(0, "unexpected call"); return 0; }

void harness(void) {
    GHOST_INDICES_ARBITRARY();
    deps_install();
    __CPROVER_assume(TABLE_OK);
    reserved_features = nondet_unsigned();
    __CPROVER_assume(spec_reserved_ok(reserved_features));
    unsigned coin = nondet_unsigned();
    __CPROVER_assume(coin < 2048);
    char str[8]; str[7] = '\0';
    char str_snap[8]; for (int i = 0; i < 8; ++i) str_snap[i] = str[i];
    polyseed_data* const sentinel = (polyseed_data*)&h_some_lang;
    polyseed_data* seed_out = sentinel;
    const polyseed_lang* lang_res = NULL;
    _Bool want_lang = nondet_bool();
    __CPROVER_assume(GHOST_ZERO && g_x_exits == 0);

#ifdef UNIT_EXPLICIT
    polyseed_status r = polyseed_decode_explicit(str, (polyseed_coin)coin, &h_some_lang, &seed_out);
#else
    polyseed_status r = polyseed_decode(str, (polyseed_coin)coin, want_lang ? &lang_res : NULL, &seed_out);
#endif
    CANARY();

    /* expected status, by the documented precedence (contracts/decode.h) */
    unsigned c[16], idx[16];
    for (int i = 0; i < 16; ++i) { idx[i] = (unsigned)h_pd_idx[i]; c[i] = idx[i]; }
    c[1] ^= coin;
    polyseed_status expect = spec_decode_status(h_split_ret, h_pd_status, idx, coin, g_alloc_failed, reserved_features);
    __CPROVER_assert(r == expect, "decode: status follows the precedence NUM_WORDS, LANG/MULT_LANG, CHECKSUM, MEMORY, UNSUPPORTED, OK");

    __CPROVER_assert(h_lazy_calls == 1 && h_lazy_in == str && h_split_calls == 1, "decode: input normalised once, split once");
    for (int i = 0; i < 8; ++i) __CPROVER_assert(str[i] == str_snap[i], "decode: input string unchanged");
    __CPROVER_assert(h_pd_calls == (h_split_ret == POLYSEED_NUM_WORDS ? 1u : 0u), "decode: the word search is consulted iff there are exactly 16 tokens");
#ifdef UNIT_EXPLICIT
    __CPROVER_assert(h_pd_calls == 0 || h_pd_arg_lang == &h_some_lang, "decode_explicit: the caller's language is used");
#else
    __CPROVER_assert(h_pd_calls == 0 || h_pd_arg_lang_out == (want_lang ? &lang_res : NULL), "decode: lang_out passed through");
    __CPROVER_assert(r != POLYSEED_OK || !want_lang || lang_res == h_pd_lang, "decode: detected language reported");
#endif
    _Bool reached_alloc = (h_split_ret == POLYSEED_NUM_WORDS && h_pd_status == POLYSEED_OK && spec_eval16(c) == 0);
    __CPROVER_assert(g_alloc_calls == (reached_alloc ? 1u : 0u), "decode: the allocator is called once, and only after the checksum passed");
    __CPROVER_assert(!reached_alloc || g_alloc_n == sizeof(polyseed_data), "decode: allocates exactly one seed object");
    if (r == POLYSEED_OK) {
        __CPROVER_assert(seed_out == (polyseed_data*)g_block && g_live == 1 && g_free_calls == 0, "decode: on OK the live block is the seed");
        polyseed_data s = *seed_out;
        __CPROVER_assert(spec_decode_seed(idx, coin, s), "decode: seed fields are the inverse layout of the coefficients (coin removed)");
        __CPROVER_assert(spec_canonical_v(s), "decode: the seed handed out is canonical");
        __CPROVER_assert(spec_supported(s.features, reserved_features), "decode: only supported features are accepted");
    } else {
        __CPROVER_assert(seed_out == sentinel, "decode: *seed_out untouched on failure");
        __CPROVER_assert(g_live == 0, "decode: no seed left allocated on failure");
        __CPROVER_assert(g_free_calls == ((reached_alloc && !g_alloc_failed) ? 1u : 0u), "decode: a block obtained is freed exactly once on failure");
        __CPROVER_assert(g_free_calls == 0 || g_free_block_was_zero, "decode: the block is wiped before it is freed");
    }
    /* C16: temporaries wiped through the injected function on every exit */
    XA(g_x_exits == 1, "decode: one exit");
    XA(g_x_str.zero && g_x_words.zero && g_x_poly.zero, "decode (C16): str_tmp, words and poly are all-zero on exit");
    _Bool ls = 0, lw = 0, lp = 0;
    for (unsigned i = 0; i < G_MZ_MAX; ++i) if (i < g_mz_count) {
        if (g_mz_ptr[i] == g_x_str.addr && g_mz_len[i] == g_x_str.size) ls = 1;
        if (g_mz_ptr[i] == g_x_words.addr && g_mz_len[i] == g_x_words.size) lw = 1;
        if (g_mz_ptr[i] == g_x_poly.addr && g_mz_len[i] == g_x_poly.size) lp = 1;
    }
    XA(ls && lw && lp, "decode (C16): each temporary was wiped through the injected memzero with its full size");
    __CPROVER_assert(g_rand_calls == 0 && g_time_calls == 0 && g_kdf_calls == 0 && g_nfc_calls == 0, "decode: no randomness, clock, KDF or NFC");
}
