/* unit B.str.nfkd_lazy (C19, C14) -- BOUNDED shadow of U.str.nfkd_lazy that needs no woven text (so it still
 * decides after a refactoring of the loop): every NUL-terminated string of at most LAZY_N - 1 bytes:
 *   the dependency is called iff some byte >= 0x80 occurs before the terminator (byte values, either char
 *   signedness), exactly once, with (str, norm), and its result is returned; otherwise norm is a copy of
 *   str and its length is returned; str is unchanged. */
#include "contracts/prelude.h"
#include "contracts/ghost_str.h"
#include "src/dependency.c"
#include "src/storage.h"
#include "contracts/spec.h"
#include "stubs/deps.h"

#ifndef LAZY_N
#define LAZY_N 10
#endif

void harness(void) {
    GHOST_INDICES_ARBITRARY();
    deps_install();
    char str[LAZY_N], snap[LAZY_N];
    for (int i = 0; i < LAZY_N - 1; ++i) str[i] = nondet_char();
    str[LAZY_N - 1] = '\0';
    for (int i = 0; i < LAZY_N; ++i) snap[i] = str[i];
    __CPROVER_assume(GHOST_ZERO);
    polyseed_str norm;
    size_t r = utf8_nfkd_lazy(str, norm);
    CANARY();
    size_t len = 0; _Bool nonascii = 0, ended = 0;
    for (int i = 0; i < LAZY_N; ++i) {
        if (!ended) { if (str[i] == '\0') ended = 1; else { len++; if ((unsigned char)str[i] >= 0x80) nonascii = 1; } }
    }
    __CPROVER_assert((g_nfkd_calls == 1) == nonascii && g_nfkd_calls <= 1, "nfkd_lazy: normalisation requested iff a non-ASCII byte occurs (byte value >= 0x80, for either char signedness)");
    if (g_nfkd_calls == 1) {
        __CPROVER_assert(g_nfkd_in == str && g_nfkd_out == norm && r == g_nfkd_ret, "nfkd_lazy: dependency receives (str, norm); its result is returned");
    } else {
        __CPROVER_assert(r == len && norm[len] == '\0', "nfkd_lazy: ASCII input is copied; its length is returned");
        for (int i = 0; i < LAZY_N - 1; ++i) __CPROVER_assert((size_t)i >= len || norm[i] == str[i], "nfkd_lazy: copy is identical");
    }
    for (int i = 0; i < LAZY_N; ++i) __CPROVER_assert(str[i] == snap[i], "nfkd_lazy: input unchanged");
}
