/* unit: make_features against its contract (src/features.c) */
#include "contracts/prelude.h"
#include "src/features.c"
#include "contracts/spec.h"
#define VERIF_HAVE_FEATURES_C
#include "contracts/misc.h"
void harness(void) {
    unsigned f;
    unsigned r = make_features(f);
    CANARY();
}
