/* units U.cmpf.* (C08, C07, C19) -- the four comparers against the acceptance rule of the property,
 * UNBOUNDED in the string lengths: for every NUL-terminated key in an object of 1..CMP_KOBJ bytes (a
 * token always lives in a polyseed_str) and every NUL-terminated list element in an object of
 * 1..CMP_EOBJ bytes (closed fact T.fits: every table word is shorter), all byte values, both char
 * settings.  Loops are closed by the woven inductive invariants of profile cmpf.
 *
 *   base byte   = non-NUL and, in the languages with accents, < 0x80 (after NFKD an accent is a
 *                 sequence of non-ASCII bytes); strip(s) = the base bytes of s in order
 *   exact       : cmp == 0  <=>  strip(key) == strip(elm)
 *   prefix      : cmp == 0  <=>  strip(key) == strip(elm)  or  (|strip(key)| >= 4 and strip(key) is a
 *                 proper prefix of strip(elm))
 *   order       : cmp == sign(strip(key)[c] - strip(elm)[c]) at the first position c where the rule
 *                 stops (first difference, end of the key, or the key's last letter in prefix mode)
 *
 * strip() and the base-letter counts are ghost arrays fixed by the axioms A1-A4 below (each array is a
 * function of the string: A1 defines the count by its recurrence, A2/A3 define the stripped string
 * through the count).  The canary shows the axioms are satisfiable. */
#include "contracts/prelude.h"
#include "contracts/ghost_str.h"
#include "src/lang.c"

#define SPEC_PREFIX_LEN 4   /* "at least four characters long": from the property statement, not from the source */

#if defined(CMP_STR_NOACCENT) || defined(CMP_PREFIX_NOACCENT)
#define BASE(c) ((c) != '\0' && ((unsigned char)(c)) < 0x80)
#define ACCENTS 1
#else
#define ACCENTS 0
#define BASE(c) ((c) != '\0')
#endif
#if defined(CMP_PREFIX) || defined(CMP_PREFIX_NOACCENT)
#define IS_PREFIX_RULE 1
#else
#define IS_PREFIX_RULE 0
#endif

static const char* h_key; static const char* h_elm; static size_t h_klen, h_elen;
size_t verif_strlen_ghost(const char* s) { return s == h_key ? h_klen : h_elen; }

unsigned short nondet_ushort(void);

#ifdef LEMMA_AXIOMS
/* unit L.cmpf.axioms: A5 follows from A1 by induction over the position -- base cases and induction steps
   (forward for "count <= position", backward for "count <= total"); the induction principle itself is the
   only step that is not machine-checked */
void harness(void) {
    GHOST_INDICES_ARBITRARY();
    size_t p = nondet_size(), len = nondet_size();
    __CPROVER_assume(p < len && len <= CMP_KOBJ);
    char b = nondet_char();                                   /* the byte at position p */
    unsigned short c_p = nondet_ushort(), c_p1 = nondet_ushort(), total = nondet_ushort();
    __CPROVER_assume(c_p1 == c_p + (BASE(b) ? 1 : 0));         /* A1 at p */
    CANARY();
    unsigned short c_0 = 0;
    __CPROVER_assert(c_0 <= 0, "A5 base: count at position 0 is 0 <= 0");
    __CPROVER_assert(!(c_p <= p) || c_p1 <= p + 1, "A5 step (forward): count[p] <= p implies count[p+1] <= p+1");
    __CPROVER_assert(total <= total, "A5 base: count at the terminator <= total");
    __CPROVER_assert(!(c_p1 <= total) || c_p <= total, "A5 step (backward): count[p+1] <= total implies count[p] <= total");
}
#else
void harness(void) {
    GHOST_INDICES_ARBITRARY();
#ifdef FIXED_OBJ
    size_t nk = CMP_KOBJ, ne = CMP_EOBJ;
    char key[CMP_KOBJ], elm[CMP_EOBJ];
#else
    size_t nk = nondet_size(), ne = nondet_size();
    __CPROVER_assume(nk >= 1 && nk <= CMP_KOBJ && ne >= 1 && ne <= CMP_EOBJ);
    char* key = malloc(nk); char* elm = malloc(ne);
    __CPROVER_assume(key != NULL && elm != NULL);
#endif
    h_klen = nondet_size(); h_elen = nondet_size();
    __CPROVER_assume(h_klen < nk && key[h_klen] == '\0' && h_elen < ne && elm[h_elen] == '\0');
    /* A4: h_klen / h_elen are the FIRST terminators */
    __CPROVER_assume(__CPROVER_forall { size_t p; (p < CMP_KOBJ) ==> (p >= h_klen || key[p] != '\0') });
    __CPROVER_assume(__CPROVER_forall { size_t p; (p < CMP_EOBJ) ==> (p >= h_elen || elm[p] != '\0') });
#if ACCENTS
    /* ghost arrays: arbitrary initial contents (extern, see ghost_str.h), fixed by the axioms */
    /* A1: count recurrence */
    __CPROVER_assume(g_ck[0] == 0 && g_ce[0] == 0);
    __CPROVER_assume(__CPROVER_forall { size_t p; (p < CMP_KOBJ) ==> (p >= h_klen || g_ck[p + 1] == g_ck[p] + (BASE(key[p]) ? 1 : 0)) });
    __CPROVER_assume(__CPROVER_forall { size_t p; (p < CMP_EOBJ) ==> (p >= h_elen || g_ce[p + 1] == g_ce[p] + (BASE(elm[p]) ? 1 : 0)) });
    /* A5 (consequence of A1 by induction over the position; base and step are the obligations of unit L.cmpf.axioms):
       a count never exceeds the position and never exceeds the total */
    __CPROVER_assume(__CPROVER_forall { size_t p; (p <= CMP_KOBJ) ==> (p > h_klen || (g_ck[p] <= p && g_ck[p] <= g_ck[h_klen])) });
    __CPROVER_assume(__CPROVER_forall { size_t p; (p <= CMP_EOBJ) ==> (p > h_elen || (g_ce[p] <= p && g_ce[p] <= g_ce[h_elen])) });
    /* A2: the c-th base byte is stripped[c] ; A3: stripped string ends after the last base byte */
    __CPROVER_assume(__CPROVER_forall { size_t p; (p < CMP_KOBJ) ==> (p >= h_klen || !BASE(key[p]) || g_ck[p] >= CMP_EOBJ || g_sk[g_ck[p]] == key[p]) });
    __CPROVER_assume(__CPROVER_forall { size_t p; (p < CMP_EOBJ) ==> (p >= h_elen || !BASE(elm[p]) || g_se[g_ce[p]] == elm[p]) });
    __CPROVER_assume(g_ck[h_klen] >= CMP_EOBJ || g_sk[g_ck[h_klen]] == '\0');
    __CPROVER_assume(g_se[g_ce[h_elen]] == '\0');
#endif
    h_key = key; h_elm = elm;
    g_c_exits = 0;
    const char* pk = key; const char* pe = elm;   /* called the way bsearch calls them */
#if defined(CMP_STR)
    int r = compare_str_wrap(&pk, &pe);
#elif defined(CMP_PREFIX)
    int r = compare_prefix_wrap(&pk, &pe);
#elif defined(CMP_STR_NOACCENT)
    int r = compare_str_noaccent_wrap(&pk, &pe);
#elif defined(CMP_PREFIX_NOACCENT)
    int r = compare_prefix_noaccent_wrap(&pk, &pe);
#endif
    CANARY();
    __CPROVER_assert(r == -1 || r == 0 || r == 1, "cmp: result in {-1,0,1}");
    __CPROVER_assert(g_c_exits == 1, "cmp: one exit");
    size_t dk = g_c_exit_k, de = g_c_exit_e;
    __CPROVER_assert(dk <= h_klen && de <= h_elen, "cmp: both cursors stop inside the strings (never past a terminator)");
#if ACCENTS
    size_t NKs = g_ck[h_klen], NEs = g_ce[h_elen];      /* lengths of the stripped strings */
    size_t c = g_ck[dk];
    __CPROVER_assert(c == g_ce[de], "cmp: both cursors have consumed the same number of base letters");
    __CPROVER_assert(c <= NKs && c <= NEs, "cmp: stop position inside both stripped strings");
    __CPROVER_assert(r == (g_sk[c] > g_se[c]) - (g_sk[c] < g_se[c]), "cmp: result is the order of the stripped strings at the stop position");
    _Bool is_prefix = NKs <= NEs && __CPROVER_forall { size_t k; (k < CMP_EOBJ) ==> (k >= NKs || g_sk[k] == g_se[k]) };
#else
    /* no stripping: the stripped strings are the strings themselves */
    size_t NKs = h_klen, NEs = h_elen;
    size_t c = dk;
    __CPROVER_assert(c == de, "cmp: both cursors advance in lock step");
    __CPROVER_assert(r == (key[c] > elm[c]) - (key[c] < elm[c]), "cmp: result is the order of the strings at the stop position (as plain char)");
    _Bool is_prefix = NKs <= NEs && __CPROVER_forall { size_t k; (k < CMP_EOBJ) ==> (k >= NKs || key[k] == elm[k]) };
#endif
    _Bool equal = is_prefix && NKs == NEs;
    _Bool accept = equal || (IS_PREFIX_RULE && is_prefix && NKs >= SPEC_PREFIX_LEN);
    __CPROVER_assert((r == 0) == accept, "cmp: equal exactly by the acceptance rule (full word, or prefix of >= 4 base letters; accents ignored where the language has them)");
}
#endif
