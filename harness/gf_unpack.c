/* unit U.gf.unpack: polyseed_poly_to_data is the inverse layout and writes every byte of *data */
#include "contracts/prelude.h"
#include "src/gf.c"
#include "contracts/spec.h"
#include "contracts/gf.h"

void harness(void) {
    const gf_poly* p;
    polyseed_data* d;
    polyseed_poly_to_data(p, d);
    CANARY();
}
