/* unit U.api.crypt (C12, C13, C14, C16, C04): polyseed_crypt against its contract, harness-enforced.
 * Contract stubs: utf8_nfkd_lazy (U.str.nfkd_lazy), polyseed_data_to_poly (U.gf.pack), gf_poly_encode
 * (U.gf.encode); the KDF is the ghost-recording dependency stub delivering an ARBITRARY 32-byte mask.
 *   exactly one KDF call: pw = the normalised password buffer, pwlen = its length without terminator,
 *   salt = 'POLYSEED mask' 00 FF FF (16 bytes), 10000 iterations, 32 key bytes;
 *   new seed = spec_crypt_post(old seed, mask): 19 bytes XORed, top two bits of byte 18 dropped, padding
 *   unchanged, encrypted flag toggled, birthday and user features unchanged, check value recomputed
 *   (so a shape-valid seed stays canonical for EVERY mask);
 *   pass_norm, mask and poly wiped through the injected memzero; nothing else called; password unchanged. */
#include "contracts/prelude.h"
/* assertions that depend on the woven exit recording (C16); when the woven text no longer fits the function
   (refactored locals) the unit is re-run without it (-DVERIF_NOWEAVE): those assertions are then undecided,
   every other clause of the contract is still checked */
#ifdef VERIF_NOWEAVE
#define XA(c, m) ((void)0)
#else
#define XA(c, m) __CPROVER_assert(c, m)
#endif
#include "contracts/ghost_str.h"
#include "src/features.c"
#include "src/polyseed.c"
#include "contracts/spec.h"
#include "contracts/gf.h"
#include "contracts/crypt.h"
#include "stubs/deps.h"

static unsigned h_lazy_calls; static const char* h_lazy_in; static char* h_lazy_out; static size_t h_lazy_ret;
static char h_lazy_at_k;   /* byte g_k (arbitrary but fixed index) of the normalised password as utf8_nfkd_lazy returned it */

size_t contract_nfkd_lazy(const char* str, polyseed_str norm) {
    h_lazy_calls++; h_lazy_in = str; h_lazy_out = norm;
    __CPROVER_assert(__CPROVER_w_ok(norm, POLYSEED_STR_SIZE), "utf8_nfkd_lazy.requires: norm is a polyseed_str");
    __CPROVER_havoc_slice(norm, POLYSEED_STR_SIZE);
    size_t r = nondet_size();
    __CPROVER_assume(r < POLYSEED_STR_SIZE);
    norm[r] = '\0';
    h_lazy_ret = r;
    h_lazy_at_k = (g_k < POLYSEED_STR_SIZE) ? norm[g_k] : 0;
    return r;
}

void polyseed_data_to_poly(const polyseed_data* data, gf_poly* poly) {
    __CPROVER_assert(data->birthday < 1024 && data->features < 32, "polyseed_data_to_poly.requires: field ranges");
    for (int i = 1; i < 16; ++i) poly->coeff[i] = nondet_unsigned();
    __CPROVER_assume(spec_pack_matches(*data, *poly));
}

void contract_gf_poly_encode(gf_poly* message) {
    __CPROVER_assert(COEFFS_OK(message), "gf_poly_encode.requires: coefficients < 2048");
    message->coeff[0] = message->coeff[0] ^ spec_eval_poly0(message);
}

void polyseed_poly_to_data(const gf_poly* poly, polyseed_data* data) { __CPROVER_assert(0, "unexpected call"); }
void polyseed_data_store(const polyseed_data* data, polyseed_storage storage) { __CPROVER_assert(0, "unexpected call"); }
polyseed_status polyseed_data_load(const polyseed_storage storage, polyseed_data* data) { __CPROVER_assert(0, "unexpected call"); return 0; }
polyseed_status polyseed_phrase_decode(const polyseed_phrase phrase, uint_fast16_t idx_out[POLYSEED_NUM_WORDS], const polyseed_lang** lang_out) { __CPROVER_assert(0, "unexpected call"); return 0; }
polyseed_status polyseed_phrase_decode_explicit(const polyseed_phrase phrase, const polyseed_lang* lang, uint_fast16_t idx_out[POLYSEED_NUM_WORDS]) { __CPROVER_assert(0, "unexpected call"); return 0; }

void harness(void) {
    GHOST_INDICES_ARBITRARY();
    deps_install();
    __CPROVER_assume(TABLE_OK);
    polyseed_data seed, old, other, other_snap;
    __CPROVER_assume(spec_shape(&seed) && seed.checksum < 2048);
    old = seed;
    other_snap = other;                       /* a second live seed: must not be affected */
    char pw[8]; pw[7] = '\0';
    char pw_snap[8]; for (int i = 0; i < 8; ++i) pw_snap[i] = pw[i];
    __CPROVER_assume(GHOST_ZERO && g_x_exits == 0);

    polyseed_crypt(&seed, pw);
    CANARY();

    __CPROVER_assert(h_lazy_calls == 1 && h_lazy_in == pw, "crypt: password normalised exactly once");
    __CPROVER_assert(g_kdf_calls == 1, "crypt: exactly one KDF call");
    __CPROVER_assert(g_kdf_pw == (const uint8_t*)h_lazy_out && g_kdf_pwlen == h_lazy_ret, "crypt: KDF password = normalised password, length without terminator");
    __CPROVER_assert(g_kdf_saltlen == 16, "crypt: 16-byte salt");
    for (unsigned i = 0; i < 16; ++i) __CPROVER_assert(g_kdf_salt_copy[i] == spec_mask_salt(i), "crypt: salt is 'POLYSEED mask' 00 FF FF");
    __CPROVER_assert(g_kdf_iter == SPEC_KDF_ITER && g_kdf_keylen == 32, "crypt: 10000 iterations, 32 mask bytes");
    __CPROVER_assert(g_k >= h_lazy_ret || g_kdf_pw_at_k == (uint8_t)h_lazy_at_k, "crypt: the KDF password is the normalised password byte for byte (arbitrary position)");
    __CPROVER_assert(spec_crypt_post(old, seed, g_kdf_out), "crypt: new seed = old seed masked by the first 19 KDF bytes (top two bits dropped), flag toggled, check value recomputed");
    __CPROVER_assert(spec_canonical_v(seed), "crypt: the result is canonical for every mask");
    for (int i = 0; i < 8; ++i) __CPROVER_assert(pw[i] == pw_snap[i], "crypt: password unchanged");
    __CPROVER_assert(other.birthday == other_snap.birthday && other.features == other_snap.features && other.checksum == other_snap.checksum
        && spec_eq_bytes32x(other.secret, other_snap.secret), "crypt: another seed is not affected");
    XA(g_x_exits == 1 && g_x_pass.zero && g_x_mask.zero && g_x_poly.zero, "crypt (C16): pass_norm, mask and poly are all-zero on exit");
    _Bool l1 = 0, l2 = 0, l3 = 0;
    for (unsigned i = 0; i < G_MZ_MAX; ++i) if (i < g_mz_count) {
        if (g_mz_ptr[i] == g_x_pass.addr && g_mz_len[i] == g_x_pass.size) l1 = 1;
        if (g_mz_ptr[i] == g_x_mask.addr && g_mz_len[i] == g_x_mask.size) l2 = 1;
        if (g_mz_ptr[i] == g_x_poly.addr && g_mz_len[i] == g_x_poly.size) l3 = 1;
    }
    XA(l1 && l2 && l3, "crypt (C16): each temporary was wiped through the injected memzero with its full size");
    XA(g_kdf_key == (uint8_t*)g_x_mask.addr, "crypt: the KDF writes the local mask buffer");
    __CPROVER_assert(g_alloc_calls == 0 && g_free_calls == 0 && g_rand_calls == 0 && g_time_calls == 0 && g_nfc_calls == 0,
        "crypt: no allocator, randomness, clock or NFC");
}
