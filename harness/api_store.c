/* unit: polyseed_store against its contract (contracts/api.h), dependency stubs with ghost logs */
#include "harness/api_common.h"

void harness(void) {
    deps_install();
    const polyseed_data* seed; uint8_t* st;
    polyseed_store(seed, st);
    CANARY();
}
