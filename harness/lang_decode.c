/* units U.lang.phrase_decode / U.lang.phrase_decode_explicit / U.lang.get_comparer (C09, C01, C16, C07):
 * the two phrase decoders against their contract over an ARBITRARY search-outcome matrix
 * g_match[10][16] in [-1, 2047] (language x token); lang_search is replaced by its contract stub, which
 * returns g_match[language][token] (mechanical call substitution, goto-instrument --replace-calls):
 *   explicit : OK  <=> all 16 entries of the language's row are >= 0, then idx_out == row; else ERR_LANG
 *   auto     : OK  <=> exactly one row is fully >= 0 (then idx_out == that row and, if lang_out != NULL,
 *              *lang_out == that language -- identical to what the explicit decoder gives for it);
 *              ERR_MULT_LANG <=> two or more rows; ERR_LANG <=> none; a NULL lang_out is never dereferenced;
 *              the local copy of the indices is wiped on every exit (C16)
 *   get_comparer: the four flag combinations select the four rules */
#include "contracts/prelude.h"
/* assertions that depend on the woven exit recording (C16); when the woven text no longer fits the function
   (refactored locals) the unit is re-run without it (-DVERIF_NOWEAVE): those assertions are then undecided,
   every other clause of the contract is still checked */
#ifdef VERIF_NOWEAVE
#define XA(c, m) ((void)0)
#else
#define XA(c, m) __CPROVER_assert(c, m)
#endif
#include "contracts/ghost_str.h"
#include "src/lang.c"
#include "contracts/spec.h"
#include "src/storage.h"
#include "stubs/deps.h"

#define NL 10
static int g_match[NL][POLYSEED_NUM_WORDS];
static char g_tok[POLYSEED_NUM_WORDS];       /* 16 distinct token addresses */
static const polyseed_lang* h_langs[NL];
static unsigned h_search_calls;

/* contract stub of lang_search (its own contract is proved in U.lang.search) */
int stub_lang_search(const polyseed_lang* lang, const char* word, polyseed_cmp* cmp) {
    int li = -1, wi = -1;
    for (int i = 0; i < NL; ++i) if (h_langs[i] == lang) li = i;
    for (int i = 0; i < POLYSEED_NUM_WORDS; ++i) if (&g_tok[i] == word) wi = i;
    __CPROVER_assert(li >= 0 && wi >= 0, "lang_search.requires: a registered language and one of the 16 tokens");
    __CPROVER_assert(cmp == get_comparer(lang), "lang_search.requires: the language's own comparer");
    h_search_calls++;
    return g_match[li][wi];
}

static _Bool row_ok(int li) {
    _Bool ok = 1;
    for (int w = 0; w < POLYSEED_NUM_WORDS; ++w) if (g_match[li][w] < 0) ok = 0;
    return ok;
}

void harness(void) {
    GHOST_INDICES_ARBITRARY();
    deps_install();
    __CPROVER_assert(polyseed_get_num_langs() == NL, "registry: ten languages");
    for (int i = 0; i < NL; ++i) h_langs[i] = polyseed_get_lang(i);
    for (int i = 0; i < NL; ++i) for (int j = 0; j < i; ++j) __CPROVER_assume(h_langs[i] != h_langs[j]);
    for (int i = 0; i < NL; ++i) for (int w = 0; w < POLYSEED_NUM_WORDS; ++w) {
        g_match[i][w] = nondet_int();
        __CPROVER_assume(g_match[i][w] >= -1 && g_match[i][w] < POLYSEED_LANG_SIZE);
    }
    polyseed_phrase phrase;
    for (int w = 0; w < POLYSEED_NUM_WORDS; ++w) phrase[w] = &g_tok[w];
    uint_fast16_t idx_out[POLYSEED_NUM_WORDS];
    for (int w = 0; w < POLYSEED_NUM_WORDS; ++w) idx_out[w] = 0xFFFF;
    __CPROVER_assume(GHOST_ZERO && g_pd_exits == 0);

#if defined(UNIT_EXPLICIT)
    int L = nondet_int();
    __CPROVER_assume(L >= 0 && L < NL);
    polyseed_status r = polyseed_phrase_decode_explicit(phrase, h_langs[L], idx_out);
    CANARY();
    __CPROVER_assert(r == POLYSEED_OK || r == POLYSEED_ERR_LANG, "explicit: status is OK or ERR_LANG");
    __CPROVER_assert((r == POLYSEED_OK) == row_ok(L), "explicit: OK exactly when all 16 tokens are recognised by that language");
    if (r == POLYSEED_OK) {
        for (int w = 0; w < POLYSEED_NUM_WORDS; ++w)
            __CPROVER_assert(idx_out[w] == (uint_fast16_t)g_match[L][w], "explicit: indices are the search results, in order");
    }
    __CPROVER_assert(g_mz_count == 0 && g_alloc_calls == 0 && g_free_calls == 0 && g_kdf_calls == 0 && g_nfkd_calls == 0
        && g_nfc_calls == 0 && g_rand_calls == 0 && g_time_calls == 0, "explicit: no dependency is called");
#elif defined(UNIT_AUTO)
    const polyseed_lang* lang_out_obj = NULL;
    _Bool want_lang = nondet_bool();
    polyseed_status r = polyseed_phrase_decode(phrase, idx_out, want_lang ? &lang_out_obj : NULL);
    CANARY();
    int nmatch = 0, first = -1;
    for (int i = 0; i < NL; ++i) if (row_ok(i)) { if (first < 0) first = i; nmatch++; }
    __CPROVER_assert(r == POLYSEED_OK || r == POLYSEED_ERR_LANG || r == POLYSEED_ERR_MULT_LANG, "auto: documented status set");
    __CPROVER_assert((r == POLYSEED_OK) == (nmatch == 1), "auto: OK exactly when exactly one language recognises all 16 tokens");
    __CPROVER_assert((r == POLYSEED_ERR_MULT_LANG) == (nmatch >= 2), "auto: MULT_LANG exactly when two or more languages recognise all tokens (never guesses)");
    __CPROVER_assert((r == POLYSEED_ERR_LANG) == (nmatch == 0), "auto: ERR_LANG exactly when no language does");
    if (r == POLYSEED_OK) {
        for (int w = 0; w < POLYSEED_NUM_WORDS; ++w)
            __CPROVER_assert(idx_out[w] == (uint_fast16_t)g_match[first][w], "auto: indices are those of the unique matching language (what explicit decoding gives)");
        __CPROVER_assert(!want_lang || lang_out_obj == h_langs[first], "auto: reports the unique matching language");
    }
    __CPROVER_assert(want_lang || lang_out_obj == NULL, "auto: nothing stored when lang_out is NULL");
    XA(g_pd_exits == 1 && g_pd_idx_zero_at_exit, "auto (C16): the local copy of the word indices is zero on exit");
    __CPROVER_assert(g_mz_count == 1 && g_mz_len[0] == sizeof(uint_fast16_t) * POLYSEED_NUM_WORDS,
        "auto (C16): wiped through the injected memzero, exactly once");
    __CPROVER_assert(g_alloc_calls == 0 && g_free_calls == 0 && g_kdf_calls == 0 && g_nfkd_calls == 0
        && g_nfc_calls == 0 && g_rand_calls == 0 && g_time_calls == 0, "auto: no other dependency is called");
#elif defined(UNIT_COMPARER)
    static polyseed_lang l;
    l.has_prefix = nondet_bool(); l.has_accents = nondet_bool();
    polyseed_cmp* c = get_comparer(&l);
    CANARY();
    __CPROVER_assert(c == (l.has_prefix ? (l.has_accents ? &compare_prefix_noaccent_wrap : &compare_prefix_wrap)
        : (l.has_accents ? &compare_str_noaccent_wrap : &compare_str_wrap)), "get_comparer: rule selected by the prefix/accent flags");
#endif
}
