/* unit U.lang.search (C07, C09): lang_search and polyseed_lang_find_word against their contract, relative
 * to an ARBITRARY table g_cmp[2048] of comparison outcomes (the comparer is a stub returning g_cmp[i]
 * for element i; what the real comparers return is the subject of U.cmp.* / B.cmp.* / the closed
 * word-list obligations):
 *   linear branch (unsorted lists), unbounded-by-invariant over the 2048 entries:
 *       ret == the FIRST index whose outcome is 0, or -1 if there is none
 *   sorted branch, through a model of libc bsearch that is the textbook binary search (stubs/bsearch_model.h;
 *       at most 12 probes for 2048 entries, unrolled exactly): if the outcomes are monotone (positive, then at
 *       most one 0, then negative -- lemma L.cmp.order + closed facts T.sorted_pairs, T.first4_unique give this
 *       for every key the rule accepts for some word): ret == the index whose outcome is 0, or -1 if none
 *   only the comparer is called; nothing is written. */
#include "contracts/prelude.h"
#include "contracts/ghost_str.h"
#include "src/lang.c"

static const polyseed_lang* h_lang;
static const char* h_word;

static int stub_cmp(const void* a, const void* b) {
    /* a must be the address of the key pointer, b an element of the list */
    const char* const* pa = (const char* const*)a;
    const char* const* pb = (const char* const*)b;
    size_t i = (size_t)(pb - &h_lang->words[0]);
    __CPROVER_assert(*pa == h_word && __CPROVER_same_object(pb, h_lang) && i < POLYSEED_LANG_SIZE,
        "lang_search: the comparer is called on (&word, &lang->words[i]) only");
    return g_cmp[i];
}

/* libc bsearch: the textbook algorithm (stubs/bsearch_model.h), not an assumed contract */
#include "stubs/bsearch_model.h"

static polyseed_lang the_lang;

void harness(void) {
    GHOST_INDICES_ARBITRARY();
    h_lang = &the_lang;
    _Bool sorted = nondet_bool();
    the_lang.is_sorted = sorted;
    char tok[8]; tok[7] = '\0';
    h_word = tok;
    __CPROVER_assume(__CPROVER_forall { size_t q; (q < 2048) ==> (g_cmp[q] >= -1 && g_cmp[q] <= 1) });
    __CPROVER_assume(g_k < 2048);
    if (sorted) {   /* outcomes monotone: for all p <= q, g_cmp[p] >= g_cmp[q], and at most one 0 -- instantiated at the
                       arbitrary index g_k (first or second position), which is all a proof about index g_k can use */
        __CPROVER_assume(__CPROVER_forall { size_t q; (q < 2048) ==> ((q > g_k || g_cmp[q] >= g_cmp[g_k]) && (q < g_k || g_cmp[q] <= g_cmp[g_k])
            && (q == g_k || g_cmp[q] != 0 || g_cmp[g_k] != 0)) });
    }

    int r = lang_search(&the_lang, tok, &stub_cmp);
    CANARY();

    __CPROVER_assert(r >= -1 && r < POLYSEED_LANG_SIZE, "lang_search: result in [-1, 2047]");
    __CPROVER_assert(r < 0 || g_cmp[r] == 0, "lang_search: a returned index compares equal to the word");
    if (!sorted) {
        __CPROVER_assert(r < 0 || g_k >= (size_t)r || g_cmp[g_k] != 0, "lang_search(linear): the FIRST matching index is returned");
        __CPROVER_assert(r >= 0 || g_cmp[g_k] != 0, "lang_search(linear): -1 only if no entry matches");
    } else {
        __CPROVER_assert(r >= 0 || g_cmp[g_k] != 0, "lang_search(sorted, binary search): -1 only if no entry matches");
    }
}
