/* unit U.lang.search (C07, C09): lang_search and polyseed_lang_find_word against their contract, relative
 * to an ARBITRARY table g_cmp[2048] of comparison outcomes (the comparer is a stub returning g_cmp[i]
 * for element i; what the real comparers return is the subject of U.cmp.* / B.cmp.* / the closed
 * word-list obligations):
 *   linear branch (unsorted lists), unbounded-by-invariant over the 2048 entries:
 *       ret == the FIRST index whose outcome is 0, or -1 if there is none
 *   sorted branch, with the TRUSTED bsearch contract: if the outcomes are monotone (1..1, then at most
 *       one 0, then -1..-1 -- which is what "list strictly increasing and comparer monotone" gives):
 *       ret == the index whose outcome is 0, or -1 if there is none
 *   only the comparer is called; nothing is written. */
#include "contracts/prelude.h"
#include "contracts/ghost_str.h"
#include "src/lang.c"

static const polyseed_lang* h_lang;
static const char* h_word;

static int stub_cmp(const void* a, const void* b) {
    /* a must be the address of the key pointer, b an element of the list */
    const char* const* pa = (const char* const*)a;
    const char* const* pb = (const char* const*)b;
    size_t i = (size_t)(pb - &h_lang->words[0]);
    __CPROVER_assert(*pa == h_word && __CPROVER_same_object(pb, h_lang) && i < POLYSEED_LANG_SIZE,
        "lang_search: the comparer is called on (&word, &lang->words[i]) only");
    return g_cmp[i];
}

/* TRUSTED contract of libc bsearch (no model in CBMC 6.11; DESIGN.md section 9 item 3):
 * on an array whose comparison outcomes against the key are monotone (the harness assumes this in the
 * sorted branch) bsearch calls the comparer on (key, element) pairs only, writes nothing, and returns
 * a pointer to an element that compares equal if one exists, NULL otherwise. */
void* bsearch(const void* key, const void* base, size_t nmemb, size_t size,
    int (*compar)(const void*, const void*)) {
    __CPROVER_assert(nmemb == POLYSEED_LANG_SIZE && size == sizeof(const char*) && base == &h_lang->words[0],
        "bsearch.requires: the whole list, element size of a pointer");
    size_t r = nondet_size();
    if (r < nmemb && compar(key, (const char*)base + r * size) == 0) {
        return (void*)((const char*)base + r * size);
    }
    __CPROVER_assume(__CPROVER_forall { size_t q; (q < 2048) ==> (g_cmp[q] != 0) });
    return NULL;
}

static polyseed_lang the_lang;

void harness(void) {
    GHOST_INDICES_ARBITRARY();
    h_lang = &the_lang;
    _Bool sorted = nondet_bool();
    the_lang.is_sorted = sorted;
    char tok[8]; tok[7] = '\0';
    h_word = tok;
    __CPROVER_assume(__CPROVER_forall { size_t q; (q < 2048) ==> (g_cmp[q] >= -1 && g_cmp[q] <= 1) });
    if (sorted) {   /* list strictly increasing + comparer monotone for the key  =>  outcomes 1..1 [0] -1..-1 */
        __CPROVER_assume(__CPROVER_forall { size_t q; (q < 2047) ==> (g_cmp[q] >= g_cmp[q + 1] && (g_cmp[q] != 0 || g_cmp[q + 1] != 0)) });
    }
    __CPROVER_assume(g_k < 2048);

    int r = lang_search(&the_lang, tok, &stub_cmp);
    CANARY();

    __CPROVER_assert(r >= -1 && r < POLYSEED_LANG_SIZE, "lang_search: result in [-1, 2047]");
    __CPROVER_assert(r < 0 || g_cmp[r] == 0, "lang_search: a returned index compares equal to the word");
    if (!sorted) {
        __CPROVER_assert(r < 0 || g_k >= (size_t)r || g_cmp[g_k] != 0, "lang_search(linear): the FIRST matching index is returned");
        __CPROVER_assert(r >= 0 || g_cmp[g_k] != 0, "lang_search(linear): -1 only if no entry matches");
    } else {
        __CPROVER_assert(r >= 0 || g_cmp[g_k] != 0, "lang_search(sorted, trusted bsearch contract): -1 only if no entry matches");
    }
}
