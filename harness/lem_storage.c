/* lemmas L.st.inv1 / L.st.inv2 (C06) over the contracts of polyseed_data_store / polyseed_data_load only:
 *   inv1: for every shape-valid seed s with check value < 2048: load(store(s)) == OK and yields s
 *   inv2: for every 32-byte buffer b: load(b) == OK  =>  store(loaded) reproduces b byte for byte */
#include "contracts/prelude.h"
#include "src/storage.c"
#include "contracts/spec.h"
#include "contracts/gf.h"
#include "contracts/storage.h"

void harness(void) {
#ifdef LEMMA_INV2
    polyseed_storage b, b2;
    polyseed_data d;
    polyseed_status r = polyseed_data_load(b, &d);
    if (r == POLYSEED_OK) {
        polyseed_data_store(&d, b2);
        CANARY();
        for (int i = 0; i < 32; ++i) __CPROVER_assert(b2[i] == b[i], "L.st.inv2: acceptance implies that storing the loaded seed reproduces the buffer");
    }
#else
    polyseed_data s, d;
    polyseed_storage b;
    __CPROVER_assume(spec_shape(&s) && s.checksum < 2048);
    polyseed_data_store(&s, b);
    polyseed_status r = polyseed_data_load(b, &d);
    CANARY();
    __CPROVER_assert(r == POLYSEED_OK, "L.st.inv1: the image of a seed is accepted");
    __CPROVER_assert(d.birthday == s.birthday && d.features == s.features && d.checksum == s.checksum, "L.st.inv1: fields identical");
    for (int i = 0; i < 32; ++i) __CPROVER_assert(d.secret[i] == s.secret[i], "L.st.inv1: secret buffer identical");
#endif
}
