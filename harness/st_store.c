/* unit: polyseed_data_store against its contract (src/storage.c) */
#include "contracts/prelude.h"
#include "src/storage.c"
#include "contracts/spec.h"
#include "contracts/gf.h"
#include "contracts/storage.h"
void harness(void) {
    const polyseed_data* d; uint8_t* st;
    polyseed_data_store(d, st);
    CANARY();
}
