/* unit: polyseed_free against its contract (contracts/api.h), dependency stubs with ghost logs */
#include "harness/api_common.h"

void harness(void) {
    deps_install();
    polyseed_data* seed;
    polyseed_free(seed);
    CANARY();
}
