/* lemma L.pack.inv1: unpack(pack(s)) == s for every shape(s)    (contracts only)
 * lemma L.pack.inv2: pack(unpack(c)) == c for every 16 coefficients < 2048 */
#include "contracts/prelude.h"
#include "src/gf.c"
#include "contracts/spec.h"
#include "contracts/gf.h"

void harness(void) {
#ifdef LEMMA_INV2
    gf_poly p, q;
    polyseed_data d;
    __CPROVER_assume(COEFFS_OK(&p));
    polyseed_poly_to_data(&p, &d);
    q.coeff[0] = d.checksum;
    polyseed_data_to_poly(&d, &q);
    CANARY();
    for (int i = 0; i < 16; ++i)
        __CPROVER_assert(q.coeff[i] == p.coeff[i], "L.pack.inv2: pack(unpack(c))[i] == c[i]");
#else
    polyseed_data s, d;
    gf_poly p;
    __CPROVER_assume(spec_shape(&s) && s.checksum < 2048);
    p.coeff[0] = s.checksum;
    polyseed_data_to_poly(&s, &p);
    __CPROVER_assert(COEFFS_OK(&p), "L.pack.range: packed words < 2048");
    polyseed_poly_to_data(&p, &d);
    CANARY();
    __CPROVER_assert(d.birthday == s.birthday, "L.pack.inv1: birthday");
    __CPROVER_assert(d.features == s.features, "L.pack.inv1: features");
    __CPROVER_assert(d.checksum == s.checksum, "L.pack.inv1: checksum");
    for (int i = 0; i < 32; ++i)
        __CPROVER_assert(d.secret[i] == s.secret[i], "L.pack.inv1: secret[i]");
#endif
}
