/* unit: polyseed_enable_features against its contract (src/features.c) */
#include "contracts/prelude.h"
#include "src/features.c"
#include "contracts/spec.h"
#define VERIF_HAVE_FEATURES_C
#include "contracts/misc.h"
void harness(void) {
    unsigned m;
    int r = polyseed_enable_features(m);
    CANARY();
}
