/* unit U.lang.registry (C07): the registry accessors: ten languages; polyseed_get_lang(i) is the i-th
 * registered object (all distinct); the name getters return the object's fields */
#include "contracts/prelude.h"
#include "contracts/ghost_str.h"
#include "src/lang.c"

void harness(void) {
    GHOST_INDICES_ARBITRARY();
    __CPROVER_assert(polyseed_get_num_langs() == 10, "registry: ten languages");
    int i = nondet_int(), j = nondet_int();
    __CPROVER_assume(i >= 0 && i < 10 && j >= 0 && j < 10);
    const polyseed_lang* a = polyseed_get_lang(i);
    const polyseed_lang* b = polyseed_get_lang(j);
    CANARY();
    __CPROVER_assert(a == languages[i], "registry: get_lang(i) is the i-th entry");
    const polyseed_lang* expect[10] = { &polyseed_lang_en, &polyseed_lang_jp, &polyseed_lang_ko, &polyseed_lang_es, &polyseed_lang_fr,
        &polyseed_lang_it, &polyseed_lang_cs, &polyseed_lang_pt, &polyseed_lang_zh_s, &polyseed_lang_zh_t };
    __CPROVER_assert(a == expect[i], "registry: the ten published language objects, each once");
    __CPROVER_assert(polyseed_get_lang_name(a) == a->name && polyseed_get_lang_name_en(a) == a->name_en, "registry: name getters return the object's fields");
}
