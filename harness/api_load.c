/* unit: polyseed_load against its contract (contracts/api.h), dependency stubs with ghost logs */
#include "harness/api_common.h"

void harness(void) {
    deps_install();
    const uint8_t* st; polyseed_data** seed_out;
    polyseed_status r = polyseed_load(st, seed_out);
    CANARY();
}
