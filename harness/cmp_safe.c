/* units U.cmp.* (C14, C08, C19): the four comparers, UNBOUNDED in both string lengths (woven inductive
 * invariants with decreases clauses on every loop), for every NUL-terminated key in an object of
 * 1..KEY_OBJ bytes and every NUL-terminated element in an object of 1..ELM_OBJ bytes:
 *   terminates; reads only inside both strings (never past a terminator); result in {-1,0,1};
 *   for the two exact-order comparers additionally the functional contract
 *     d = first offset where the strings differ or both end;   ret == sign(key[d] - elm[d]) as plain char
 *     hence ret == 0  <=>  the strings are equal
 *   (compare_prefix: unless the key ends after at least n letters -- bounded check B.cmp.prefix). */
#include "contracts/prelude.h"
#include "contracts/ghost_str.h"
#include "src/lang.c"

#ifndef KEY_OBJ
#define KEY_OBJ POLYSEED_STR_SIZE
#endif
#ifndef ELM_OBJ
#define ELM_OBJ 64
#endif

static const char* h_key; static const char* h_elm; static size_t h_klen, h_elen;
size_t verif_strlen_ghost(const char* s) { return s == h_key ? h_klen : h_elen; }

void harness(void) {
    GHOST_INDICES_ARBITRARY();
    h_klen = nondet_size(); h_elen = nondet_size();
    size_t nk = nondet_size(), ne = nondet_size();
    __CPROVER_assume(nk >= 1 && nk <= KEY_OBJ && ne >= 1 && ne <= ELM_OBJ);
    char* key = malloc(nk); char* elm = malloc(ne);
    __CPROVER_assume(key != NULL && elm != NULL);
    __CPROVER_assume(h_klen < nk && key[h_klen] == '\0' && h_elen < ne && elm[h_elen] == '\0');
    h_key = key; h_elm = elm;
    __CPROVER_assume(g_c_exits == 0);
#if defined(CMP_STR)
    int r = compare_str(key, elm);
#elif defined(CMP_PREFIX)
    int r = compare_prefix(key, elm, NUM_CHARS_PREFIX);
#elif defined(CMP_STR_NOACCENT)
    int r = compare_str_noaccent(key, elm);
#elif defined(CMP_PREFIX_NOACCENT)
    int r = compare_prefix_noaccent(key, elm, NUM_CHARS_PREFIX);
#endif
    CANARY();
    __CPROVER_assert(r == -1 || r == 0 || r == 1, "cmp: result in {-1,0,1}");
    __CPROVER_assert(g_c_exits == 1, "cmp: one exit");
#if defined(CMP_STR)
    size_t d = g_c_exit_k;
    __CPROVER_assert(d == g_c_exit_e && d <= h_klen && d <= h_elen, "compare_str: both cursors advance in lock step inside the strings");
    __CPROVER_assert(g_k >= d || (key[g_k] == elm[g_k] && key[g_k] != '\0'), "compare_str: the strings agree before offset d");
    __CPROVER_assert(r == (key[d] > elm[d]) - (key[d] < elm[d]), "compare_str: result is the order of the first differing characters");
    __CPROVER_assert((r == 0) == (key[d] == '\0' && elm[d] == '\0'), "compare_str: zero exactly when both strings end together, i.e. are equal");
#endif
}
