/* unit: is_encrypted against its contract (src/features.c) */
#include "contracts/prelude.h"
#include "src/features.c"
#include "contracts/spec.h"
#define VERIF_HAVE_FEATURES_C
#include "contracts/misc.h"
void harness(void) {
    unsigned f;
    bool r = is_encrypted(f);
    CANARY();
}
