/* unit L.cmp.order (C07, C08): the comparison outcomes binary search relies on, as a lemma over the comparer
 * CONTRACT (units U.cmpf.*: cmp(key, elm) == spec_cmp(strip(key), strip(elm)), where spec_cmp is 0 exactly
 * by the acceptance rule and otherwise the order of the first differing letters).  All strings are stripped
 * strings of at most LN-1 letters (closed fact T.wordlen bounds the table words; a key that is accepted for a
 * word is never longer than the word), every byte value symbolic.
 *
 * For a key k that the rule accepts for list word b, and any other list word a:
 *   a before b in the list (closed facts T.sorted_pairs: spec_cmp(a, b) < 0, T.first4_unique: a and b differ
 *   within their first four letters when the language abbreviates)   ==>   spec_cmp(k, a) > 0
 *   a after b  (spec_cmp(b, a) < 0, same side condition)              ==>   spec_cmp(k, a) < 0
 * i.e. seen from the key, every word before the matching one compares "greater", every word after it
 * "smaller": exactly the precondition under which a binary search finds the matching index. */
#include "contracts/prelude.h"
#ifndef LN
#define LN 17
#endif
#define SPEC_PREFIX_LEN 4

static size_t slen(const char* s) { size_t n = 0; for (size_t i = 0; i < LN; ++i) { if (s[i] == '\0') break; n++; } return n; }
static int sgn(char x, char y) { return (x > y) - (x < y); }
/* the comparer contract as a function of the stripped strings */
static int spec_cmp(const char* k, const char* e, _Bool prefix) {
    size_t nk = slen(k), ne = slen(e);
    size_t d = 0; _Bool found = 0;
    for (size_t i = 0; i < LN; ++i) { if (!found) { if (k[i] != e[i] || k[i] == '\0') { d = i; found = 1; } } }
    _Bool is_prefix = (d == nk);               /* the key ended before any difference */
    _Bool accept = (is_prefix && nk == ne) || (prefix && is_prefix && nk >= SPEC_PREFIX_LEN);
    return accept ? 0 : sgn(k[d], e[d]);
}
static _Bool first4_differ(const char* a, const char* b) {
    _Bool diff = 0;
    for (size_t i = 0; i < SPEC_PREFIX_LEN; ++i) { if (!diff) { if (a[i] != b[i]) diff = 1; else if (a[i] == '\0') break; } }
    return diff;
}

void harness(void) {
    char k[LN], a[LN], b[LN];
    k[LN - 1] = a[LN - 1] = b[LN - 1] = '\0';
    _Bool prefix = nondet_bool();
    __CPROVER_assume(slen(a) >= 1 && slen(b) >= 1);                 /* T.token_safe: no empty word */
    __CPROVER_assume(spec_cmp(k, b, prefix) == 0);                   /* the rule accepts k for b */
    __CPROVER_assume(!prefix || first4_differ(a, b));                /* T.first4_unique */
    _Bool a_before_b = nondet_bool();
    if (a_before_b) __CPROVER_assume(spec_cmp(a, b, prefix) < 0);   /* T.sorted_pairs */
    else            __CPROVER_assume(spec_cmp(b, a, prefix) < 0);
    CANARY();
    int r = spec_cmp(k, a, prefix);
    __CPROVER_assert(!a_before_b || r > 0, "order lemma: a word before the matching word compares greater than the key's match (key > word)");
    __CPROVER_assert(a_before_b || r < 0, "order lemma: a word after the matching word compares smaller (key < word)");
}
