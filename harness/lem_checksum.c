/* checksum lemmas over the contracts of gf_poly_check / gf_poly_encode (bodies not used):
 *   LEMMA_SINGLE : valid codeword, one coefficient replaced by a different value  => check fails
 *   LEMMA_SWAP   : valid codeword, two unequal coefficients exchanged            => check fails
 *   LEMMA_UNIQUE : for any 15 data coefficients exactly one c0 validates (the one gf_poly_encode stores)
 *   LEMMA_COIN   : valid codeword ^ coin A on coefficient 1, decoded with coin B: check <=> A == B
 * all 16 coefficients, positions, values and coins symbolic. */
#include "contracts/prelude.h"
#include "src/gf.c"
#include "contracts/spec.h"
#include "contracts/gf.h"

void harness(void) {
    gf_poly p;
    __CPROVER_assume(COEFFS_OK(&p));
    __CPROVER_assume(TABLE_OK);
#if defined(LEMMA_SINGLE)
    __CPROVER_assume(gf_poly_check(&p));
    unsigned i = nondet_unsigned(); __CPROVER_assume(i < 16);
    gf_elem v = nondet_unsigned(); __CPROVER_assume(v < 2048 && v != p.coeff[i]);
    p.coeff[i] = v;
    CANARY();
    __CPROVER_assert(!gf_poly_check(&p), "L.gf.single: single-coefficient error is detected");
#elif defined(LEMMA_SWAP)
    __CPROVER_assume(gf_poly_check(&p));
    unsigned i = nondet_unsigned(), j = nondet_unsigned();
    __CPROVER_assume(i < 16 && j < 16 && i != j && p.coeff[i] != p.coeff[j]);
    gf_elem t = p.coeff[i]; p.coeff[i] = p.coeff[j]; p.coeff[j] = t;
    CANARY();
    __CPROVER_assert(!gf_poly_check(&p), "L.gf.swap: transposition of unequal words is detected");
#elif defined(LEMMA_UNIQUE)
    gf_poly q = p;
    gf_elem a = nondet_unsigned(); __CPROVER_assume(a < 2048);
    p.coeff[0] = 0;
    gf_poly_encode(&p);
    __CPROVER_assert(p.coeff[0] < 2048, "L.gf.unique: check value in range");
    __CPROVER_assert(gf_poly_check(&p), "L.gf.unique: the encoded check value validates");
    q.coeff[0] = a;
    CANARY();
    __CPROVER_assert(!gf_poly_check(&q) || a == p.coeff[0], "L.gf.unique: no other check value validates");
#elif defined(LEMMA_COIN)
    __CPROVER_assume(gf_poly_check(&p));
    unsigned A = nondet_unsigned(), B = nondet_unsigned();
    __CPROVER_assume(A < 2048 && B < 2048);
    p.coeff[1] ^= A;   /* encoder: coin applied after the checksum */
    p.coeff[1] ^= B;   /* decoder: coin removed before the check */
    CANARY();
    __CPROVER_assert(gf_poly_check(&p) == (A == B), "L.gf.coin: validates iff same coin");
#endif
}
