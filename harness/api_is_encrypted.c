/* unit: polyseed_is_encrypted against its contract (contracts/api.h), dependency stubs with ghost logs */
#include "harness/api_common.h"

void harness(void) {
    deps_install();
    const polyseed_data* seed;
    int r = polyseed_is_encrypted(seed);
    CANARY();
}
