/* unit: birthday_decode against its contract (src/storage.c) */
#include "contracts/prelude.h"
#include "src/storage.c"
#include "contracts/spec.h"
#include "contracts/misc.h"
void harness(void) {
    unsigned b;
    uint64_t t = birthday_decode(b);
    CANARY();
}
