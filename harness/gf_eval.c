/* unit U.gf.eval: gf_poly_eval == Horner spec over all 2^176 polynomials (mul2 by contract) */
#include "contracts/prelude.h"
#include "src/gf.c"
#include "contracts/spec.h"
#include "contracts/gf.h"

void harness(void) {
    const gf_poly* p;
    gf_elem r = gf_poly_eval(p);
    CANARY();
}
