/* units B.cmp.* (C08, C19) -- BOUNDED: each of the four comparers decides "equal" exactly by the
 * reference acceptance rule of DESIGN.md section 4, for every key of at most KEYB-1 bytes and every
 * list element of at most ELMB-1 bytes (all byte values):
 *   strip(s)  = s without its bytes >= 0x80          (accent languages; identity otherwise)
 *   exact     : cmp == 0  <=>  strip(key) == strip(elm)
 *   prefix    : cmp == 0  <=>  strip(key) == strip(elm)  or  (|strip(key)| >= 4 and strip(key) is a
 *               proper prefix of strip(elm))
 * Byte values are used throughout, never the sign of char, so the same rule must hold for both
 * char signedness settings (C19). */
#include "contracts/prelude.h"
#include "contracts/ghost_str.h"
#include "src/lang.c"

#define SPEC_PREFIX_LEN 4   /* "at least four characters long": from the property statement, not from the source */
#ifndef KEYB
#define KEYB 11
#endif
#ifndef ELMB
#define ELMB 9
#endif

static int ref_strip(const char* s, int n, char* out, int accents) {
    int m = 0;
    for (int i = 0; i < n; ++i) {
        if (s[i] == '\0') break;
        if (accents && (unsigned char)s[i] >= 0x80) continue;
        out[m++] = s[i];
    }
    out[m] = '\0';
    return m;
}

void harness(void) {
    GHOST_INDICES_ARBITRARY();
    char key[KEYB], elm[ELMB], sk[KEYB], se[ELMB];
    for (int i = 0; i < KEYB - 1; ++i) key[i] = nondet_char();   /* explicit so that counterexamples carry the bytes */
    for (int i = 0; i < ELMB - 1; ++i) elm[i] = nondet_char();
    key[KEYB - 1] = '\0';
    elm[ELMB - 1] = '\0';
    const char* pk = key; const char* pe = elm;   /* the comparers are called the way bsearch calls them */
#if defined(CMP_STR)
    int accents = 0, prefix = 0;
    int r = compare_str_wrap(&pk, &pe);
#elif defined(CMP_PREFIX)
    int accents = 0, prefix = 1;
    int r = compare_prefix_wrap(&pk, &pe);
#elif defined(CMP_STR_NOACCENT)
    int accents = 1, prefix = 0;
    int r = compare_str_noaccent_wrap(&pk, &pe);
#elif defined(CMP_PREFIX_NOACCENT)
    int accents = 1, prefix = 1;
    int r = compare_prefix_noaccent_wrap(&pk, &pe);
#endif
    CANARY();
    int nk = ref_strip(key, KEYB, sk, accents);
    int ne = ref_strip(elm, ELMB, se, accents);
    _Bool is_prefix = (nk <= ne);
    for (int i = 0; i < KEYB - 1; ++i) {
        if (i < nk && i < ne && sk[i] != se[i]) is_prefix = 0;
    }
    _Bool equal = is_prefix && nk == ne;
    _Bool accept = equal || (prefix && is_prefix && nk >= SPEC_PREFIX_LEN);
    __CPROVER_assert(r == -1 || r == 0 || r == 1, "cmp: result in {-1,0,1}");
    __CPROVER_assert((r == 0) == accept, "cmp: equal exactly by the acceptance rule (full word, or prefix of >= 4 base letters; accents ignored where the language has them)");
}
