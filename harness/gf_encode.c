/* unit U.gf.encode: gf_poly_encode stores old c0 ^ eval(0,c1..c15) into coeff[0] only */
#include "contracts/prelude.h"
#include "src/gf.c"
#include "contracts/spec.h"
#include "contracts/gf.h"

void harness(void) {
    gf_poly* p;
    gf_poly_encode(p);
    CANARY();
}
