/* unit U.api.encode (C03, C01, C05, C13, C16, C17): polyseed_encode against its contract, harness-enforced,
 * over an ABSTRACT language object: compose flag symbolic; separator an arbitrary string; table entry x
 * points to string x mod 16 of a pool of 16 arbitrary strings of symbolic length < 64.
 * Contract stubs: polyseed_data_to_poly (U.gf.pack), write_str (U.str.write), u8_nfc (dependency).
 * Precondition (C17): the joined text fits:  sum of the 16 word lengths + 15 separator lengths <
 * POLYSEED_STR_SIZE  -- discharged for the real tables by the closed obligations T.fits[lang].
 *   coefficient 0 = stored check value, coefficients 1..15 = published layout, coin XORed into coefficient 1;
 *   text = words[c0] sep words[c1] sep ... words[c15], NUL-terminated, length = sum (checked at an arbitrary
 *   byte position); compose: u8_nfc called exactly once on that text with str_out as destination and its
 *   result returned; otherwise str_out holds the text and the length is returned; never overruns;
 *   poly and str_tmp wiped through the injected memzero; seed and language unchanged; no other dependency. */
#include "contracts/prelude.h"
/* assertions that depend on the woven exit recording (C16); when the woven text no longer fits the function
   (refactored locals) the unit is re-run without it (-DVERIF_NOWEAVE): those assertions are then undecided,
   every other clause of the contract is still checked */
#ifdef VERIF_NOWEAVE
#define XA(c, m) ((void)0)
#else
#define XA(c, m) __CPROVER_assert(c, m)
#endif
#include "contracts/ghost_str.h"
#include "src/features.c"
#include "src/polyseed.c"
#include "contracts/spec.h"
#include "contracts/gf.h"
#include "stubs/deps.h"

#ifndef WMAX
#define WMAX 64
#endif
#define NPOOL 16                       /* distinct arbitrary strings; table entry x -> string x % NPOOL */
static char pool[NPOOL + 1][WMAX];     /* NPOOL + 1 strings (the last one is the separator); havocked by the harness */
#define R16 pool[0], pool[1], pool[2], pool[3], pool[4], pool[5], pool[6], pool[7], pool[8], pool[9], pool[10], pool[11], pool[12], pool[13], pool[14], pool[15]
#define R128 R16, R16, R16, R16, R16, R16, R16, R16
#define R1024 R128, R128, R128, R128, R128, R128, R128, R128
/* static initialiser (one constant struct assignment): table entry x -> pool[x % 16] */
static polyseed_lang h_lang = { .separator = pool[NPOOL], .words = { R1024, R1024 } };
static size_t plen[NPOOL + 1];         /* their lengths */
static unsigned h_ws_calls;
static char* h_base;
static const char* h_expect_str[31]; /* the strings that must be written, in order (set by the harness) */
static uint16_t h_expect_offs[32];   /* the cursor offset each write must start at (partial sums), and the end */

size_t verif_strlen_ghost(const char* s) {
    size_t off = __CPROVER_POINTER_OFFSET(s);
    __CPROVER_assert(__CPROVER_same_object(s, pool) && off % WMAX == 0 && off / WMAX < NPOOL + 1,
        "write_str.requires: the string is a table entry or the separator");
    return plen[off / WMAX];
}

/* TRUSTED model of memcpy for this unit (CBMC's built-in model with a symbolic length over a 576-byte
 * buffer exhausts memory): requires both regions accessible, writes exactly n bytes of dst, and the byte
 * at the arbitrary index g_k (if below n) equals the source byte. */
static unsigned h_mc_calls; static void* h_mc_dst; static const void* h_mc_src; static size_t h_mc_n;
void* memcpy(void* dst, const void* src, size_t n) {
    h_mc_calls++; h_mc_dst = dst; h_mc_src = src; h_mc_n = n;
    __CPROVER_assert(n == 0 || (__CPROVER_r_ok(src, n) && __CPROVER_w_ok(dst, n)), "memcpy.requires: source readable and destination writable for n bytes");
    if (n > 0) {
        char at_k = (g_k < n) ? ((const char*)src)[g_k] : 0;
        __CPROVER_havoc_slice(dst, n);
        if (g_k < n) ((char*)dst)[g_k] = at_k;
    }
    return dst;
}

/* contract stub of write_str (proved on the real function in U.str.write) */
void contract_write_str(char** pos, const char* str) {
    size_t len = verif_strlen_ghost(str);
    unsigned n = h_ws_calls;
    h_ws_calls++;
#ifdef ENC_BOUNDED
    size_t S = __CPROVER_POINTER_OFFSET(*pos);
    char* base = *pos - S;
    __CPROVER_assert(__CPROVER_OBJECT_SIZE(*pos) == POLYSEED_STR_SIZE, "write_str.requires: destination is a polyseed_str");
    __CPROVER_assert(S + len < POLYSEED_STR_SIZE, "write_str.requires: room for the string and a terminator (phrase fits the buffer)");
    /* bounded precise variant: the real bytes are written */
    for (size_t k = 0; k < WMAX; ++k) if (k < len) base[S + k] = str[k];
    *pos = *pos + len;
#else
    if (n == 0) h_base = *pos - __CPROVER_POINTER_OFFSET(*pos);      /* start of the destination object */
    /* the call must be the next one of the expected sequence (string and cursor); assert-then-assume and
       the ghost partial sums h_expect_offs[] keep every step a local obligation */
    __CPROVER_assert(n < 31 && str == h_expect_str[n] && *pos == h_base + h_expect_offs[n],
        "encode: the n-th write is words[coefficient n/2] (even n) or the separator (odd n), at the end of what precedes it");
    __CPROVER_assume(n < 31 && str == h_expect_str[n] && *pos == h_base + h_expect_offs[n]);
    __CPROVER_assert(len == (size_t)(uint16_t)(h_expect_offs[n + 1] - h_expect_offs[n]), "encode: the cursor advances by the length of the string written");
    __CPROVER_assume(len == (size_t)(uint16_t)(h_expect_offs[n + 1] - h_expect_offs[n]));
    __CPROVER_assert(__CPROVER_OBJECT_SIZE(h_base) == POLYSEED_STR_SIZE, "write_str.requires: destination is a polyseed_str");
    __CPROVER_assert((size_t)h_expect_offs[n] + len < POLYSEED_STR_SIZE, "write_str.requires: room for the string and a terminator (phrase fits the buffer)");
    /* assigns (the slice [S, S+len)) over-approximated by arbitrary bytes for the whole buffer: the
       byte-level content follows from this call sequence and write_str's own contract (U.str.write);
       it is checked directly, with the real bytes, in B.api.encode */
    __CPROVER_havoc_object(h_base);
    *pos = h_base + h_expect_offs[n + 1];   /* = *pos + len by the assertions above */
#endif
}

void polyseed_data_to_poly(const polyseed_data* data, gf_poly* poly) {
    __CPROVER_assert(data->birthday < 1024 && data->features < 32, "polyseed_data_to_poly.requires: field ranges");
    for (int i = 1; i < 16; ++i) poly->coeff[i] = nondet_unsigned();
    __CPROVER_assume(spec_pack_matches(*data, *poly));
}
void polyseed_poly_to_data(const gf_poly* poly, polyseed_data* data) { __CPROVER_assert(0, "unexpected call"); }
void polyseed_data_store(const polyseed_data* data, polyseed_storage storage) { __CPROVER_assert(0, "unexpected call"); }
polyseed_status polyseed_data_load(const polyseed_storage storage, polyseed_data* data) { __CPROVER_assert(0, "unexpected call"); return 0; }
polyseed_status polyseed_phrase_decode(const polyseed_phrase phrase, uint_fast16_t idx_out[POLYSEED_NUM_WORDS], const polyseed_lang** lang_out) { __CPROVER_assert(0, "unexpected call"); return 0; }
polyseed_status polyseed_phrase_decode_explicit(const polyseed_phrase phrase, const polyseed_lang* lang, uint_fast16_t idx_out[POLYSEED_NUM_WORDS]) { __CPROVER_assert(0, "unexpected call"); return 0; }

void harness(void) {
    GHOST_INDICES_ARBITRARY();
    deps_install();
    __CPROVER_havoc_object(pool);        /* arbitrary contents */
    for (int p = 0; p < NPOOL + 1; ++p) {
        plen[p] = nondet_size();
        __CPROVER_assume(plen[p] < WMAX && pool[p][plen[p]] == '\0');
#ifdef DBG_LEN3
        __CPROVER_assume(plen[p] == 3);
#endif
        for (int k = 0; k < WMAX; ++k) __CPROVER_assume((size_t)k >= plen[p] || pool[p][k] != '\0');
    }
    h_ws_calls = 0; h_mc_calls = 0;
    polyseed_data seed, snap;
    __CPROVER_assume(spec_shape(&seed) && seed.checksum < 2048);
    snap = seed;
    unsigned coin = nondet_unsigned();
    __CPROVER_assume(coin < 2048);
    /* the 16 coefficients the phrase must spell */
    unsigned c[16];
    for (unsigned i = 0; i < 16; ++i) c[i] = spec_coeff_raw(seed.secret, seed.birthday, seed.features, seed.checksum, coin, i);
    size_t total;                        /* = sum of the 16 word lengths + 15 separator lengths, as the last partial sum */
    h_lang.compose = nondet_bool();
    const char* W[17];
    size_t L[17];
    for (int i = 0; i < 16; ++i) { W[i] = pool[c[i] % NPOOL]; L[i] = plen[c[i] % NPOOL]; }
    W[16] = pool[NPOOL]; L[16] = plen[NPOOL];
    for (int i = 0; i < 31; ++i) h_expect_str[i] = (i % 2 == 0) ? W[i / 2] : W[16];
    /* expected cursor offsets, in 16-bit arithmetic (every length is < 64, so nothing wraps) */
    h_expect_offs[0] = 0;
    for (int n = 0; n < 31; ++n) h_expect_offs[n + 1] = (uint16_t)(h_expect_offs[n] + (uint16_t)((n % 2 == 0) ? L[n / 2] : L[16]));
    total = h_expect_offs[31];
    __CPROVER_assume(total < POLYSEED_STR_SIZE);                     /* fits(lang): closed obligation T.fits */
    /* arithmetic lemma (checked here, then used): the partial sums are monotone and end at the total */
    for (int n = 0; n < 31; ++n) {
        __CPROVER_assert(h_expect_offs[n] <= h_expect_offs[n + 1] && h_expect_offs[n + 1] <= h_expect_offs[31],
            "L.encode.cursor: every intermediate cursor lies at or before the end of the text");
        __CPROVER_assume(h_expect_offs[n] <= h_expect_offs[n + 1] && h_expect_offs[n + 1] <= h_expect_offs[31]);
    }
    __CPROVER_assume(g_k <= total);
    /* expected byte at position g_k of the joined text (terminator at g_k == total) */
    char expect = '\0';
    {
        size_t off = 0;
        for (int i = 0; i < 16; ++i) {
            if (g_k >= off && g_k < off + L[i]) expect = W[i][g_k - off];
            off += L[i];
            if (i < 15) {
                if (g_k >= off && g_k < off + L[16]) expect = W[16][g_k - off];
                off += L[16];
            }
        }
    }
    polyseed_str out;
    __CPROVER_assume(GHOST_ZERO && g_x_exits == 0);

    size_t r = polyseed_encode(&seed, &h_lang, (polyseed_coin)coin, out);
    CANARY();

    __CPROVER_assert(h_ws_calls == 31, "encode: 16 words and 15 separators are written");

    if (h_lang.compose) {
        __CPROVER_assert(g_nfc_calls == 1 && g_nfc_out == out, "encode: NFC applied exactly once, into the caller's buffer");
        XA(g_nfc_in == (const char*)g_x_str.addr, "encode: NFC reads the joined text");
#ifdef ENC_BOUNDED
        __CPROVER_assert(g_nfc_in_at_k == expect, "encode: the text handed to NFC is words[c0] sep ... words[c15] NUL (arbitrary byte position)");
#else
        __CPROVER_assert(g_k != total || g_nfc_in_at_k == '\0', "encode: the text handed to NFC is terminated right after the last word");
#endif
        __CPROVER_assert(r == g_nfc_ret, "encode: the composed length is returned");
    } else {
        __CPROVER_assert(g_nfc_calls == 0, "encode: NFC is not applied when the language does not compose");
#ifdef ENC_BOUNDED
        __CPROVER_assert(out[g_k] == expect, "encode: output is words[c0] sep ... words[c15] NUL (arbitrary byte position)");
#else
        __CPROVER_assert(g_k != total || out[g_k] == '\0', "encode: the output is terminated right after the last word");
        __CPROVER_assert(h_mc_calls == 1 && h_mc_dst == out && h_mc_n == total + 1, "encode: the joined text and its terminator are copied to the caller's buffer");
        XA(h_mc_src == g_x_str.addr, "encode: the copy reads the joined text");
#endif
        __CPROVER_assert(r == total, "encode: returned length = length of the NUL-terminated output");
    }
    __CPROVER_assert(seed.birthday == snap.birthday && seed.features == snap.features && seed.checksum == snap.checksum,
        "encode: seed unchanged");
    for (int i = 0; i < 32; ++i) __CPROVER_assert(seed.secret[i] == snap.secret[i], "encode: seed secret unchanged");
    XA(g_x_exits == 1 && g_x_str.zero && g_x_poly.zero, "encode (C16): str_tmp and poly are all-zero on exit");
    _Bool l1 = 0, l2 = 0;
    for (unsigned i = 0; i < G_MZ_MAX; ++i) if (i < g_mz_count) {
        if (g_mz_ptr[i] == g_x_str.addr && g_mz_len[i] == g_x_str.size) l1 = 1;
        if (g_mz_ptr[i] == g_x_poly.addr && g_mz_len[i] == g_x_poly.size) l2 = 1;
    }
    XA(l1 && l2, "encode (C16): both temporaries wiped through the injected memzero with their full size");
    __CPROVER_assert(g_alloc_calls == 0 && g_free_calls == 0 && g_rand_calls == 0 && g_time_calls == 0 && g_kdf_calls == 0
        && g_nfkd_calls == 0, "encode: no allocator, randomness, clock, KDF or NFKD");
}
