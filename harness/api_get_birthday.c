/* unit: polyseed_get_birthday against its contract (contracts/api.h), dependency stubs with ghost logs */
#include "harness/api_common.h"

void harness(void) {
    deps_install();
    const polyseed_data* seed;
    uint64_t r = polyseed_get_birthday(seed);
    CANARY();
}
