/* lemmas over the encode / decode contracts (contracts/decode.h, spec_coeff of spec.h):
 *  L.rt.index (C01, C05): canonical seed s with supported features, coins A, B < 2048.  The phrase for A spells
 *      the indices spec_coeff(s, A, .) (U.api.encode); the word search gives them back (closed facts T.distinct).
 *      Decoding them for coin B:   A == B -> OK and the seed is identical in secret[32], birthday, features,
 *      checksum (hence identical storage image and KDF inputs);   A != B -> ERR_CHECKSUM.
 *      The phrases for A and B differ in coefficient 1 only.
 *  L.kdf.injective (C04): equal KDF inputs (32-byte password, 32-byte salt) imply equal secret buffer, coin,
 *      birthday and features.
 *  L.st.image (C01, C06): identical seeds have identical storage images. */
#include "contracts/prelude.h"
#include "src/storage.h"
#include "src/gf.h"
#include "contracts/spec.h"
#include "contracts/gf.h"
#include "contracts/decode.h"

void harness(void) {
#if defined(LEMMA_KDF)
    polyseed_data s1, s2;
    unsigned A = nondet_unsigned(), B = nondet_unsigned();
    __CPROVER_assume(A < 2048 && B < 2048 && spec_shape(&s1) && spec_shape(&s2));
    bool same = true;
    for (int i = 0; i < 32; ++i) same = same && s1.secret[i] == s2.secret[i];
    for (unsigned i = 0; i < 32; ++i) same = same && spec_kdf_salt(s1.birthday, s1.features, A, i) == spec_kdf_salt(s2.birthday, s2.features, B, i);
    __CPROVER_assume(same);
    CANARY();
    __CPROVER_assert(A == B && s1.birthday == s2.birthday && s1.features == s2.features, "L.kdf.injective: equal KDF inputs imply equal coin, birthday, features (and secret)");
#else
    polyseed_data s, out;
    unsigned A = nondet_unsigned(), B = nondet_unsigned(), reserved = nondet_unsigned();
    __CPROVER_assume(A < 2048 && B < 2048 && spec_reserved_ok(reserved));
    __CPROVER_assume(spec_canonical_v(s) && spec_supported(s.features, reserved));
    unsigned idxA[16], idxB[16];
    for (unsigned i = 0; i < 16; ++i) {
        idxA[i] = spec_coeff_raw(s.secret, s.birthday, s.features, s.checksum, A, i);
        idxB[i] = spec_coeff_raw(s.secret, s.birthday, s.features, s.checksum, B, i);
        __CPROVER_assert(idxA[i] < 2048, "L.rt.index: every coefficient is a valid word index");
        __CPROVER_assert(i == 1 || idxA[i] == idxB[i], "L.rt.index: phrases for two coins differ in the second word only");
    }
    __CPROVER_assert((idxA[1] == idxB[1]) == (A == B), "L.rt.index: the second word differs exactly when the coins differ");
    polyseed_status st = spec_decode_status(16, POLYSEED_OK, idxA, B, false, reserved);
    CANARY();
    __CPROVER_assert(st == (A == B ? POLYSEED_OK : POLYSEED_ERR_CHECKSUM), "L.rt.index: decoding for the same coin succeeds, for any other coin gives ERR_CHECKSUM");
    __CPROVER_assume(A == B && spec_decode_seed(idxA, B, out));
    __CPROVER_assert(out.birthday == s.birthday && out.features == s.features && out.checksum == s.checksum, "L.rt.index: birthday, features (incl. encrypted flag) and check value identical");
    for (int i = 0; i < 32; ++i) __CPROVER_assert(out.secret[i] == s.secret[i], "L.rt.index: secret buffer identical (KDF password)");
    for (unsigned i = 0; i < 32; ++i) __CPROVER_assert(spec_image(&out, i) == spec_image(&s, i), "L.st.image: identical serialized bytes");
    for (unsigned i = 0; i < 32; ++i) __CPROVER_assert(spec_kdf_salt(out.birthday, out.features, A, i) == spec_kdf_salt(s.birthday, s.features, A, i), "L.rt.index: identical KDF salt");
#endif
}
