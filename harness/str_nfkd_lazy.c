/* unit U.str.nfkd_lazy (C14, C17, C19, C12): utf8_nfkd_lazy against its contract, for every
 * NUL-terminated string in an object of symbolic size 1..STR_OBJ_MAX; loop closed by a woven
 * inductive invariant (unbounded in the string length).
 * Contract (byte values, never the sign of char):
 *   - never reads at or beyond the first NUL's successor, never writes outside norm[0..POLYSEED_STR_SIZE)
 *   - if the dependency was not called: ret <= POLYSEED_STR_SIZE-1, norm[0..ret) == str[0..ret), all of them ASCII and
 *     non-NUL, norm[ret] == 0, and (ret == POLYSEED_STR_SIZE-1 or str[ret] == 0)
 *   - if it was called: exactly once, with (str, norm), its result is returned, and the byte at the
 *     position reached is non-ASCII, all earlier ones ASCII (so the call happens iff a non-ASCII byte
 *     occurs among the first POLYSEED_STR_SIZE-1 bytes of the string)
 *   - str unchanged */
#include "contracts/prelude.h"
#include "contracts/ghost_str.h"
#include "src/dependency.c"
#include "src/storage.h"
#include "contracts/spec.h"
#include "stubs/deps.h"

#ifndef STR_OBJ_MAX
#define STR_OBJ_MAX 1200
#endif

void harness(void) {
    GHOST_INDICES_ARBITRARY();
    deps_install();
    size_t n = nondet_size();
    __CPROVER_assume(n >= 1 && n <= STR_OBJ_MAX);
    char* str = malloc(n);
    __CPROVER_assume(str != NULL);
    __CPROVER_assume(g_in_len < n && str[g_in_len] == '\0');
    __CPROVER_assume(GHOST_ZERO && g_lazy_exits == 0);
    char snap_k = (g_k < n) ? str[g_k] : 0;  /* frame: arbitrary byte of the input */
    polyseed_str norm;

    size_t r = utf8_nfkd_lazy(str, norm);
    CANARY();

    __CPROVER_assert(g_lazy_exits == 1, "nfkd_lazy: exactly one exit recorded");
    __CPROVER_assert(g_nfkd_calls <= 1, "nfkd_lazy: dependency called at most once");
    __CPROVER_assert(g_nfc_calls == 0 && g_kdf_calls == 0 && g_rand_calls == 0 && g_alloc_calls == 0
        && g_free_calls == 0 && g_time_calls == 0 && g_mz_count == 0, "nfkd_lazy: no other dependency called");
    __CPROVER_assert(g_k >= n || str[g_k] == snap_k, "nfkd_lazy: input string unchanged");
    if (g_nfkd_calls == 0) {
        __CPROVER_assert(r <= POLYSEED_STR_SIZE - 1 && r <= g_in_len, "nfkd_lazy: length bounded by the buffer size - 1 and by the string");
        __CPROVER_assert(norm[r] == '\0', "nfkd_lazy: result NUL-terminated at the returned length");
        __CPROVER_assert(r == POLYSEED_STR_SIZE - 1 || str[r] == '\0', "nfkd_lazy: copy stops only at the terminator or at the buffer size - 1");
        __CPROVER_assert(g_k >= r || (norm[g_k] == str[g_k] && str[g_k] != '\0' && (unsigned char)str[g_k] < 0x80),
            "nfkd_lazy: without normalisation the copied prefix is identical and pure ASCII (byte values; holds for either char signedness)");
    } else {
        __CPROVER_assert(g_nfkd_in == str && g_nfkd_out == norm, "nfkd_lazy: dependency receives (str, norm)");
        __CPROVER_assert(r == g_nfkd_ret, "nfkd_lazy: dependency result returned unchanged");
        __CPROVER_assert(g_lazy_size < POLYSEED_STR_SIZE - 1 && g_lazy_size <= g_in_len
            && (unsigned char)str[g_lazy_size] >= 0x80, "nfkd_lazy: normalisation requested at a non-ASCII byte");
        __CPROVER_assert(g_k >= g_lazy_size || (str[g_k] != '\0' && (unsigned char)str[g_k] < 0x80),
            "nfkd_lazy: normalisation requested only at the first non-ASCII byte");
    }
}
