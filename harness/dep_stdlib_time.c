/* unit U.dep.stdlib_time (C11, C18): the libc fallback clock installed by polyseed_inject when the optional
 * `time` entry is NULL.  libc time() is a stub returning an ARBITRARY time_t (signed, 64-bit on LP64):
 *   - time() is called exactly once, with a NULL argument, and nothing else is consulted;
 *   - a valid clock value (t >= 0) is passed through unchanged;
 *   - for every t before the polyseed epoch -- including the (time_t)-1 error value and every other negative
 *     value (a clock set before 1970) -- the birthday index computed from the result is 0, i.e. the seed
 *     reports the epoch (property C11: "for t before that epoch, or the (time_t)-1 error value, it reports
 *     the epoch"); birthday_encode is the real function from src/birthday.h (proved against its own
 *     specification in U.bd.encode). */
#include "contracts/prelude.h"
#include <time.h>
static unsigned h_time_calls; static time_t* h_time_arg; static time_t h_time_ret;
time_t nondet_time_t(void);
time_t time(time_t* p) { h_time_calls++; h_time_arg = p; h_time_ret = nondet_time_t(); return h_time_ret; }
#include "src/dependency.c"
#include "src/birthday.h"

void harness(void) {
    uint64_t v = stdlib_time();
    CANARY();
    time_t t = h_time_ret;
    __CPROVER_assert(h_time_calls == 1 && h_time_arg == NULL, "stdlib_time: libc time() called exactly once, with NULL");
    __CPROVER_assert(!(t >= 0) || v == (uint64_t)t, "stdlib_time: a valid clock value is passed through unchanged");
    __CPROVER_assert(!(t < (time_t)EPOCH) || birthday_encode(v) == 0,
        "stdlib_time: every clock value before the epoch, the (time_t)-1 error value and any other negative value give the epoch birthday");
    __CPROVER_assert(!(t >= (time_t)EPOCH) || birthday_decode(birthday_encode(v)) <= (uint64_t)t,
        "stdlib_time: the birthday is never later than the clock value");
}
