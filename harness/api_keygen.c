/* unit U.api.keygen (C04): polyseed_keygen against its contract, dependency stubs with ghost logs */
#include "harness/api_common.h"

void harness(void) {
    deps_install();
    const polyseed_data* seed;
    polyseed_coin coin;
    size_t key_size;
    uint8_t* key_out;
    polyseed_keygen(seed, coin, key_size, key_out);
    CANARY();
}
