/* unit: polyseed_data_load against its contract (src/storage.c) */
#include "contracts/prelude.h"
#include "src/storage.c"
#include "contracts/spec.h"
#include "contracts/gf.h"
#include "contracts/storage.h"
void harness(void) {
    const uint8_t* st; polyseed_data* d;
    polyseed_status r = polyseed_data_load(st, d);
    CANARY();
}
