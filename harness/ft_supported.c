/* unit: polyseed_features_supported against its contract (src/features.c) */
#include "contracts/prelude.h"
#include "src/features.c"
#include "contracts/spec.h"
#define VERIF_HAVE_FEATURES_C
#include "contracts/misc.h"
void harness(void) {
    unsigned f;
    bool r = polyseed_features_supported(f);
    CANARY();
}
