"""engines.py -- non-CBMC-proof deciders: closed obligations over the word lists (native, exhaustive) and
static facts from the goto symbol table / goto program of the linked library.
Each engine returns a list of dicts {name, status: pass|fail|undecided, evaluated, detail, witness?, sample?}."""
import glob
import hashlib
import json
import os
import re
import shutil
import subprocess
import sys

VERIF = os.path.dirname(os.path.abspath(__file__))
sys.path.insert(0, os.path.join(VERIF, "tools"))
import vlib  # noqa: E402

REGISTRY = {}


def engine(name):
    def deco(f):
        REGISTRY[name] = f
        return f
    return deco


def run(name, prop, tier, work):
    base = name.split(":")[0]
    if base not in REGISTRY:
        return [{"name": name, "status": "undecided", "evaluated": 0, "detail": "engine not implemented"}]
    try:
        return REGISTRY[base](prop, tier, work, name)
    except Exception as e:  # an engine crash is never a violation
        import traceback
        return [{"name": name, "status": "undecided", "evaluated": 0,
                 "detail": "engine error: %r %s" % (e, traceback.format_exc()[-400:])}]


def _copy_repo(work, tag):
    d = os.path.join(work, tag)
    if not os.path.exists(d):
        os.makedirs(d)
        for sub in ("src", "include"):
            shutil.copytree(os.path.join(vlib.REPO, sub), os.path.join(d, sub))
    return d


# ------------------------------------------------------------------------------------------ tables
_tables_cache = {}

# which table facts serve which property
TABLE_FACTS = {
    "C01": ["distinct", "token_safe", "unicode", "zh_overlap", "registry"],
    "C02": ["distinct"],
    "C03": ["registry", "golden"],
    "C05": ["distinct"],
    "C07": ["registry", "wordlen", "sorted", "sorted_pairs", "distinct", "first4_unique", "short_prefix", "token_safe", "unicode", "golden"],
    "C08": ["accept_rule", "wordlen", "sorted_pairs", "registry", "first4_unique"],
    "C09": ["token_safe", "zh_overlap"],
    "C17": ["fits"],
    "C19": ["sorted", "sorted_pairs", "distinct", "accept_rule", "wordlen", "chars_agree"],
}


def _run_tables(work, tier):
    key = (work, tier)
    if key in _tables_cache:
        return _tables_cache[key]
    d = _copy_repo(work, "tables_src")
    out = {}
    errs = []
    for ch in ("signed", "unsigned"):
        exe = os.path.join(d, "tb_" + ch)
        cmd = ["gcc", "-O1", "-w", "-f%s-char" % ch, "-DPOLYSEED_STATIC", "-I" + os.path.join(d, "include"), "-I" + d,
               os.path.join(VERIF, "tables", "tables.c")] + sorted(glob.glob(os.path.join(d, "src", "lang_*.c"))) + \
              ["-lutf8proc", "-o", exe]
        p = subprocess.run(cmd, capture_output=True, text=True, timeout=300)
        if p.returncode != 0:
            errs.append("tables build failed (%s): %s" % (ch, p.stderr[-600:]))
            continue
        dump = os.path.join(d, "dump_" + ch)
        os.makedirs(dump, exist_ok=True)
        p = subprocess.run([exe, dump, tier], capture_output=True, text=True, timeout=1200)
        if p.returncode != 0:
            errs.append("tables run failed (%s): rc=%d %s" % (ch, p.returncode, p.stderr[-300:]))
            continue
        rows = []
        for line in p.stdout.splitlines():
            line = line.strip()
            if line.startswith("{"):
                try:
                    rows.append(json.loads(line))
                except Exception:
                    errs.append("unparsable table output: " + line[:100])
        # T5 golden digests from the dump
        gpath = os.path.join(VERIF, "golden", "wordlists.sha256")
        golden = {}
        if os.path.exists(gpath):
            for l in open(gpath):
                if l.strip() and not l.startswith("#"):
                    h, n = l.split()
                    golden[n] = h
        for f in sorted(os.listdir(dump)):
            n = f[:-4]
            h = hashlib.sha256(open(os.path.join(dump, f), "rb").read()).hexdigest()
            ok = golden.get(n) == h
            rows.append({"name": "T.golden[%s]" % n, "status": "pass" if ok else "fail", "evaluated": 2048,
                         "detail": "SHA-256 of (index, word) lines %s the digest recorded at the pinned release (%s)"
                                   % ("equals" if ok else "DIFFERS from", golden.get(n, "no record")[:16])})
        missing = set(golden) - set(f[:-4] for f in os.listdir(dump))
        for n in sorted(missing):
            rows.append({"name": "T.golden[%s]" % n, "status": "fail", "evaluated": 1, "detail": "language %s is no longer present" % n})
        out[ch] = rows
    _tables_cache[key] = (out, errs)
    return out, errs


@engine("tables")
def tables_engine(prop, tier, work, name):
    out, errs = _run_tables(work, tier)
    res = []
    if errs:
        return [{"name": "tables", "status": "undecided", "evaluated": 0, "detail": "; ".join(errs)}]
    want = TABLE_FACTS.get(prop, [])
    chars = ("signed", "unsigned") if (prop == "C19" or tier == "thorough") else ("signed",)
    for ch in chars:
        for r in out.get(ch, []):
            fact = r["name"][2:].split("[")[0]
            if fact not in want:
                continue
            r2 = dict(r)
            if ch == "unsigned":
                r2["name"] = r["name"] + "@unsigned-char"
            r2["sample"] = r.get("detail", "")[:160]
            res.append(r2)
    if prop == "C19":
        # both char settings must give the same verdicts and details (deterministic specification)
        a = {r["name"]: (r["status"], r.get("detail")) for r in out.get("signed", [])}
        b = {r["name"]: (r["status"], r.get("detail")) for r in out.get("unsigned", [])}
        diff = [k for k in a if a.get(k) != b.get(k)]
        res.append({"name": "T.chars_agree[all]", "status": "fail" if diff else "pass", "evaluated": len(a),
                    "detail": ("table facts differ between signed and unsigned char: " + ", ".join(diff[:5])) if diff
                    else "every closed word-list fact evaluates identically with signed and unsigned plain char"})
    return res


# ------------------------------------------------------------------------------------------ static facts
_static_cache = {}
EXPECTED_MUTABLE = {"polyseed_deps": "src/dependency.c", "reserved_features": "src/features.c",
                    "polyseed_mul2_table": "src/gf.c", "languages": "src/lang.c"}
ALLOWED_WRITERS = {"polyseed_deps": {"polyseed_inject"}, "reserved_features": {"polyseed_enable_features"},
                   "polyseed_mul2_table": set(), "languages": set()}
# libc functions library code may call directly: pure functions of their arguments / writers of caller-provided buffers only
# (no hidden state, no clock, no randomness, no allocation, no locale)
ALLOWED_LIBC = {"memcpy", "memmove", "memset", "memcmp", "memchr", "bsearch", "qsort", "strcmp", "strncmp", "strlen", "strnlen",
                "strchr", "strrchr", "strcpy", "strncpy", "strcat", "strncat", "abs", "labs", "__assert_fail"}


def _static_facts(work):
    if work in _static_cache:
        return _static_cache[work]
    d = _copy_repo(work, "static_src")
    srcs = sorted(glob.glob(os.path.join(d, "src", "*.c")))
    gb = os.path.join(d, "lib.gb")
    p = subprocess.run(["goto-cc", "-std=c11", "-I" + os.path.join(d, "include"), "-DPOLYSEED_STATIC"] +
                       [os.path.relpath(s, d) for s in srcs] + ["-o", "lib.gb"], cwd=d, capture_output=True, text=True, timeout=600)
    if p.returncode != 0 or not os.path.exists(gb):
        raise RuntimeError("goto-cc of the library failed: " + p.stderr[-500:])
    st = subprocess.run(["goto-instrument", "--show-symbol-table", "--json-ui", "lib.gb"], cwd=d, capture_output=True, text=True, timeout=600)
    table = None
    for it in json.loads(st.stdout):
        if isinstance(it, dict) and "symbolTable" in it:
            table = it["symbolTable"]
    mutable = {}
    nfuncs = 0
    agg_locals = {}   # symbol -> (function, pretty type)
    for k, v in table.items():
        mo_l = re.match(r"^([A-Za-z_][A-Za-z_0-9]*)::(\d+::)+([A-Za-z_][A-Za-z_0-9]*)$", k)
        if mo_l and not v.get("isStaticLifetime") and v.get("isLvalue") and v.get("type", {}).get("id") in ("array", "struct", "struct_tag", "union", "union_tag"):
            agg_locals[k] = (mo_l.group(1), v.get("prettyType", ""))
    for k, v in table.items():
        loc = v.get("location", {})
        f = loc.get("file", "") if isinstance(loc, dict) else ""
        if not (f.startswith("src/") or f.startswith("include/")):
            continue
        if v.get("isType") or v.get("isMacro"):
            continue
        if v.get("type", {}).get("id") == "code":
            nfuncs += 1
            continue
        if v.get("isStaticLifetime") and v.get("isLvalue") and not v.get("isExtern"):
            const = "#constant" in v.get("type", {}).get("namedSub", {})
            if not const:
                mutable[k] = f
    gf = subprocess.run(["goto-instrument", "--show-goto-functions", "lib.gb"], cwd=d, capture_output=True, text=True, timeout=600).stdout
    cur = None
    libfuncs = set()
    writes = []      # (function, lhs)
    addr = []        # (function, symbol)
    calls = []       # (function, kind, target)
    extaddr = []     # (function, external function whose address is taken)
    wiped = set()    # locals passed (by address) to the injected memzero
    for line in gf.splitlines():
        mo = re.match(r"^([A-Za-z_][A-Za-z_0-9$:]*) /\* .* \*/\s*$", line)
        if mo:
            cur = re.sub(r"\$link\d+$", "", mo.group(1))
            libfuncs.add(cur)
            continue
        s = line.strip()
        if cur is None:
            continue
        if s.startswith("ASSIGN "):
            lhs = s[7:].split(" := ")[0]
            writes.append((cur, lhs))
        if "polyseed_deps.memzero)(" in s or "polyseed_deps.memzero(" in s:
            for sym in re.findall(r"address_of\(([A-Za-z_][A-Za-z_0-9:]*)", s):
                wiped.add(sym)
        if re.match(r"^(\d+: )?CALL ", s):
            s = re.sub(r"^\d+: ", "", s)
        if s.startswith("CALL "):
            body = s[5:]
            if " := " in body.split("(")[0] or re.match(r"^[^()]* := ", body):
                lhs, body = body.split(" := ", 1)
                writes.append((cur, lhs))
            if body.startswith("*"):
                tgt = body[1:].split("(")[0] if not body.startswith("*(") else body[2:].split(")")[0]
                calls.append((cur, "pointer", tgt))
            else:
                calls.append((cur, "direct", re.sub(r"\$link\d+$", "", body.split("(")[0])))
        for sym in list(mutable) + list(EXPECTED_MUTABLE):
            if "address_of(%s" % sym in s:
                addr.append((cur, sym, s[:160]))
        for ext in ("malloc", "free", "time", "stdlib_time", "calloc", "realloc", "rand", "random", "getrandom", "clock_gettime", "gettimeofday"):
            if "address_of(%s)" % ext in s:
                extaddr.append((cur, ext))
    res = dict(mutable=mutable, writes=writes, addr=addr, calls=calls, libfuncs=libfuncs, nfuncs=nfuncs, extaddr=extaddr,
               agg_locals=agg_locals, wiped=wiped)
    _static_cache[work] = res
    return res


def _base_sym(lhs):
    return re.split(r"[.\[]", lhs.lstrip("*("))[0]



def _owned_by(sf, roots):
    """roots plus every library function all of whose direct callers are already in the set (a static helper extracted
    from polyseed_inject is still 'polyseed_inject' for the purpose of who may write polyseed_deps)"""
    callers = {}
    for fn, kind, tgt in sf["calls"]:
        if kind == "direct":
            callers.setdefault(tgt, set()).add(fn)
    owned = set(roots)
    changed = True
    while changed:
        changed = False
        for f in sf["libfuncs"]:
            if f not in owned and callers.get(f) and callers[f] <= owned:
                owned.add(f); changed = True
    return owned


@engine("statics")
def statics_engine(prop, tier, work, name):
    sf = _static_facts(work)
    res = []
    mutable = sf["mutable"]
    extra = {k: v for k, v in mutable.items() if k not in EXPECTED_MUTABLE}
    written_extra = []
    for fn, lhs in sf["writes"]:
        b = _base_sym(lhs)
        if b in extra:
            written_extra.append((fn, b))
    for fn, sym, txt in sf["addr"]:
        # a new static whose address escapes (array decay, &x passed to a callee) can be written through the pointer
        if sym in extra:
            written_extra.append((fn, sym))
    ok = not written_extra
    detail = "mutable static-lifetime objects defined in the library: %s" % ", ".join(sorted(mutable))
    if extra and not written_extra:
        detail += " (note: %s is new but never written)" % ", ".join(sorted(extra))
    if written_extra:
        detail = "new mutable static-lifetime object written (or its address taken) by library code: " + ", ".join("%s in %s" % (b, f) for f, b in sorted(set(written_extra))[:6])
    res.append({"name": "S.statics.set", "status": "pass" if ok else "fail", "evaluated": len(mutable) + sf["nfuncs"],
                "detail": detail, "sample": detail[:160], "witness": {"new_static_writers": sorted(set(written_extra))[:10]}})
    bad = []
    allowed = {k: (_owned_by(sf, v) if v else set()) for k, v in ALLOWED_WRITERS.items()}
    for fn, lhs in sf["writes"]:
        b = _base_sym(lhs)
        if b in allowed and fn not in allowed[b]:
            bad.append("%s writes %s" % (fn, lhs))
    for fn, sym, s in sf["addr"]:
        if sym in allowed and fn not in allowed[sym]:
            bad.append("%s takes the address of %s" % (fn, sym))
    res.append({"name": "S.statics.writers", "status": "fail" if bad else "pass", "evaluated": len(sf["writes"]),
                "detail": "; ".join(sorted(set(bad))[:6]) if bad else
                "polyseed_deps is written only by polyseed_inject, reserved_features only by polyseed_enable_features; "
                "polyseed_mul2_table and languages[] are never written and never have their address taken (%d assignments scanned)" % len(sf["writes"]),
                "sample": "assignments scanned: %d" % len(sf["writes"])})
    return res


@engine("calls")
def calls_engine(prop, tier, work, name):
    sf = _static_facts(work)
    bad = []
    n = 0
    for fn, kind, tgt in sf["calls"]:
        n += 1
        if kind == "direct":
            if tgt in sf["libfuncs"] or tgt in ALLOWED_LIBC:
                continue
            if tgt == "time" and fn == "stdlib_time":
                continue
            bad.append("%s calls %s directly" % (fn, tgt))
        else:
            if tgt.startswith("polyseed_deps."):
                continue
            if re.match(r"^%s::(\d+::)*[A-Za-z_][A-Za-z_0-9]*$" % re.escape(fn), tgt):
                # a call through a function-pointer parameter or local of the same function (the comparer handed to the
                # search); where such a pointer can come from is covered by the address-taken check below
                continue
            bad.append("%s calls through pointer %s" % (fn, tgt))
    # malloc / free / stdlib_time only as fall-backs installed by polyseed_inject
    inj = _owned_by(sf, {"polyseed_inject"})
    for fn, ext in sf["extaddr"]:
        n += 1
        if fn not in inj or ext not in ("malloc", "free", "stdlib_time"):
            bad.append("%s takes the address of %s" % (fn, ext))
    return [{"name": "S.calls", "status": "fail" if bad else "pass", "evaluated": n,
             "detail": "; ".join(sorted(set(bad))[:6]) if bad else
             "every direct call in library code targets a library function or one of memcpy/memset/memcmp/bsearch/strcmp/assert; "
             "libc time() only inside stdlib_time; every other external effect goes through a polyseed_deps member (%d call sites)" % n,
             "sample": "call sites scanned: %d" % n}]


# ------------------------------------------------------------------------------------------ temporaries (C16)
NONSECRET_LOCALS = {("polyseed_keygen", "salt"), ("polyseed_crypt", "salt"),          # public domain-separation constants
                    ("polyseed_lang_check", "norm"), ("polyseed_lang_check", "separator")}  # debug self-test over the constant tables
SECRET_TYPES = ("polyseed_data", "gf_poly", "polyseed_str", "polyseed_phrase", "polyseed_storage", "uint8_t [32l]", "uint_fast16_t [16l]")


@engine("locals")
def locals_engine(prop, tier, work, name):
    """every array / struct local of library code is passed to the injected memzero in its own function, except the
    allow-listed non-secret ones; an unwiped local of a secret-bearing type is a violation, of another type undecided"""
    sf = _static_facts(work)
    bad, unk, ok = [], [], []
    for sym, (fn, pty) in sorted(sf["agg_locals"].items()):
        nm = sym.rsplit("::", 1)[1]
        if (fn, nm) in NONSECRET_LOCALS or nm == "salt" or pty.startswith("const "):
            # the public domain-separation salts (whatever helper they live in) and constant tables cannot carry secrets
            continue
        if sym in sf["wiped"]:
            ok.append(sym)
        elif pty.startswith(SECRET_TYPES) or pty in SECRET_TYPES:
            bad.append("%s (%s) in %s" % (nm, pty, fn))
        else:
            unk.append("%s (%s) in %s" % (nm, pty, fn))
    st = "fail" if bad else ("undecided" if unk else "pass")
    det = ("temporary of a secret-bearing type is never passed to the injected memzero: " + "; ".join(bad)) if bad else (
        ("new array/struct local that is not wiped and not known to be free of secrets: " + "; ".join(unk)) if unk else
        "every array/struct local of library code (%d) is wiped through the injected memzero in its own function; allow-listed non-secret locals: salt (keygen, crypt), self-test buffers" % len(ok))
    return [{"name": "S.locals", "status": st, "evaluated": len(sf["agg_locals"]), "detail": det, "sample": ", ".join(ok[:6])}]


# ------------------------------------------------------------------------------------------ encode x every table word
@engine("encwords")
def encwords_engine(prop, tier, work, name):
    """closed obligation over the tables x the real polyseed_encode (native, ASan/UBSan build of replay/replay.c)"""
    import replaylib
    exe, err = replaylib.build(work, "signed")
    if exe is None:
        return [{"name": "T.encode_words", "status": "undecided", "evaluated": 0, "detail": "replay driver does not build: " + err[-300:]}]
    env = dict(os.environ, ASAN_OPTIONS="detect_leaks=0", UBSAN_OPTIONS="print_stacktrace=0")
    try:
        p = subprocess.run([exe, "encode_all"], capture_output=True, text=True, timeout=600, env=env, errors="replace")
    except subprocess.TimeoutExpired:
        return [{"name": "T.encode_words", "status": "undecided", "evaluated": 0, "detail": "timeout"}]
    rows = []
    for line in p.stdout.splitlines():
        if line.startswith("{"):
            try:
                r = json.loads(line); r["sample"] = r.get("detail", "")[:160]; rows.append(r)
            except Exception:
                pass
    if len(rows) < 1 or (p.returncode not in (0, 1)):
        # a sanitizer abort inside the real encode is a failing input in itself
        return [{"name": "T.encode_words[sanitizer]", "status": "fail", "evaluated": 1,
                 "detail": "the real polyseed_encode aborted under ASan/UBSan while encoding the table words: " + (p.stderr or p.stdout)[-400:].replace("\n", " ")}]
    return rows
