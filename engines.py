"""engines.py -- non-CBMC deciders: closed obligations over the word lists (native, exhaustive) and
static facts from the goto symbol table.  Each engine returns a list of dicts
{name, status: pass|fail|undecided, evaluated, detail, witness?, sample?, native_replay?}."""
import os, sys

REGISTRY = {}

def engine(name):
    def deco(f):
        REGISTRY[name] = f
        return f
    return deco

def run(name, prop, tier, work):
    if name not in REGISTRY:
        return [{"name": name, "status": "undecided", "evaluated": 0, "detail": "engine not implemented"}]
    try:
        return REGISTRY[name](prop, tier, work)
    except Exception as e:  # an engine crash is never a violation
        return [{"name": name, "status": "undecided", "evaluated": 0, "detail": "engine error: %r" % e}]
