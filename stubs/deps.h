/* deps.h -- the eight injected dependencies as contract stubs with ghost logs (DESIGN.md 2.3).
 *
 * Each stub is a body that (1) asserts what the library owes the dependency (its `requires`),
 * (2) performs exactly the documented effect with arbitrary (nondeterministic) data where the
 * dependency is free to choose, and (3) records what the library asked for in ghost state.
 * These bodies are ASSUMPTIONS about the outside world, listed as such in every evidence file.
 *
 * Included after the real sources (needs polyseed_deps, polyseed_str, polyseed_data).
 */
#ifndef VERIF_STUBS_DEPS_H
#define VERIF_STUBS_DEPS_H

#include <stdlib.h>
#include <string.h>

/* ---- ghost state -------------------------------------------------------- */
#define G_MZ_MAX 8
struct verif_ghost {
    unsigned mz_count;
    void* mz_ptr[G_MZ_MAX];
    size_t mz_len[G_MZ_MAX];

    unsigned rand_calls;
    void* rand_ptr;
    size_t rand_n;
    uint8_t rand_bytes[32];

    unsigned time_calls;
    uint64_t time_value;

    unsigned alloc_calls;
    size_t alloc_n;
    _Bool alloc_failed;
    void* block;          /* the block handed out by the (single) successful alloc of this call */
    unsigned live;        /* blocks handed out and not yet returned */
    unsigned free_calls;
    _Bool free_block_was_zero;

    unsigned kdf_calls;
    const uint8_t* kdf_pw;
    size_t kdf_pwlen;
    const uint8_t* kdf_salt;
    size_t kdf_saltlen;
    uint64_t kdf_iter;
    uint8_t* kdf_key;
    size_t kdf_keylen;
    uint8_t kdf_pw_copy[32];    /* filled when pwlen <= 32 */
    uint8_t kdf_salt_copy[32];  /* filled when saltlen <= 32 */
    uint8_t kdf_out[32];        /* the bytes the KDF delivered (first 32) */
    uint8_t kdf_pw_at_k;        /* pw[g_k] when g_k < pwlen */
    uint8_t kdf_out_at_k;       /* key[g_k] as delivered when g_k < keylen */

    unsigned nfkd_calls;
    const char* nfkd_in;
    char* nfkd_out;
    size_t nfkd_ret;
    unsigned nfc_calls;
    const char* nfc_in;
    char* nfc_out;
    size_t nfc_ret;
    char nfc_in_at_k;       /* str[g_k] as handed to u8_nfc (g_k < POLYSEED_STR_SIZE) */
} G;
#ifndef VERIF_HAVE_GK
size_t g_k;                   /* arbitrary but fixed ghost index (never written) */
#endif
#define g_mz_count G.mz_count
#define g_mz_ptr G.mz_ptr
#define g_mz_len G.mz_len
#define g_rand_calls G.rand_calls
#define g_rand_ptr G.rand_ptr
#define g_rand_n G.rand_n
#define g_rand_bytes G.rand_bytes
#define g_time_calls G.time_calls
#define g_time_value G.time_value
#define g_alloc_calls G.alloc_calls
#define g_alloc_n G.alloc_n
#define g_alloc_failed G.alloc_failed
#define g_block G.block
#define g_live G.live
#define g_free_calls G.free_calls
#define g_free_block_was_zero G.free_block_was_zero
#define g_kdf_calls G.kdf_calls
#define g_kdf_pw G.kdf_pw
#define g_kdf_pwlen G.kdf_pwlen
#define g_kdf_salt G.kdf_salt
#define g_kdf_saltlen G.kdf_saltlen
#define g_kdf_iter G.kdf_iter
#define g_kdf_key G.kdf_key
#define g_kdf_keylen G.kdf_keylen
#define g_kdf_pw_copy G.kdf_pw_copy
#define g_kdf_salt_copy G.kdf_salt_copy
#define g_kdf_out G.kdf_out
#define g_kdf_pw_at_k G.kdf_pw_at_k
#define g_kdf_out_at_k G.kdf_out_at_k
#define g_nfkd_calls G.nfkd_calls
#define g_nfkd_in G.nfkd_in
#define g_nfkd_out G.nfkd_out
#define g_nfkd_ret G.nfkd_ret
#define g_nfc_calls G.nfc_calls
#define g_nfc_in G.nfc_in
#define g_nfc_out G.nfc_out
#define g_nfc_ret G.nfc_ret
#define g_nfc_in_at_k G.nfc_in_at_k

#define GHOST_ZERO (g_mz_count == 0 && g_rand_calls == 0 && g_time_calls == 0 \
    && g_alloc_calls == 0 && g_live == 0 && g_free_calls == 0 && g_kdf_calls == 0 \
    && g_nfkd_calls == 0 && g_nfc_calls == 0 && !g_alloc_failed && g_block == NULL)

/* ---- stubs -------------------------------------------------------------- */

static void stub_randbytes(void* result, size_t n) {
    __CPROVER_assert(n <= 32, "dep.randbytes: request size within the ghost log");
    g_rand_calls++;
    g_rand_ptr = result;
    g_rand_n = n;
    uint8_t fresh[32];
    for (size_t i = 0; i < 32; ++i) {
        g_rand_bytes[i] = fresh[i];
        if (i < n) ((uint8_t*)result)[i] = fresh[i];
    }
}

static void stub_pbkdf2(const uint8_t* pw, size_t pwlen, const uint8_t* salt, size_t saltlen,
    uint64_t iterations, uint8_t* key, size_t keylen) {
    g_kdf_calls++;
    g_kdf_pw = pw; g_kdf_pwlen = pwlen; g_kdf_salt = salt; g_kdf_saltlen = saltlen;
    g_kdf_iter = iterations; g_kdf_key = key; g_kdf_keylen = keylen;
    /* the dependency reads pw[0..pwlen) and salt[0..saltlen) */
    if (pwlen > 0) { __CPROVER_assert(__CPROVER_r_ok(pw, pwlen), "dep.pbkdf2: pw readable for pwlen bytes"); }
    if (saltlen > 0) { __CPROVER_assert(__CPROVER_r_ok(salt, saltlen), "dep.pbkdf2: salt readable for saltlen bytes"); }
    if (pwlen <= 32) {
        for (size_t i = 0; i < 32; ++i) if (i < pwlen) g_kdf_pw_copy[i] = pw[i];
    }
    if (saltlen <= 32) {
        for (size_t i = 0; i < 32; ++i) if (i < saltlen) g_kdf_salt_copy[i] = salt[i];
    }
    if (g_k < pwlen) g_kdf_pw_at_k = pw[g_k];
    /* writes exactly keylen arbitrary bytes */
    if (keylen > 0) {
        __CPROVER_assert(__CPROVER_w_ok(key, keylen), "dep.pbkdf2: key writable for keylen bytes");
        __CPROVER_havoc_slice(key, keylen);
    }
    for (size_t i = 0; i < 32; ++i) if (i < keylen) g_kdf_out[i] = key[i];
    if (g_k < keylen) g_kdf_out_at_k = key[g_k];
}

static void stub_memzero(void* const ptr, const size_t len) {
    __CPROVER_assert(len == 0 || __CPROVER_w_ok(ptr, len), "dep.memzero: region writable");
    if (g_mz_count < G_MZ_MAX) {
        g_mz_ptr[g_mz_count] = ptr;
        g_mz_len[g_mz_count] = len;
    }
    g_mz_count++;
    if (len > 0) memset(ptr, 0, len);
}

/* Unicode transforms: read the NUL-terminated input, write a NUL-terminated string of length
   r < POLYSEED_STR_SIZE into `norm`, return r.  Contents arbitrary (the real function is NFKD /
   NFC; what the library does with the result does not depend on which string it is). */
static size_t stub_transform_effect(const char* str, char* norm) {
    size_t r;
    __CPROVER_assume(r < POLYSEED_STR_SIZE);
    __CPROVER_assert(__CPROVER_w_ok(norm, POLYSEED_STR_SIZE), "dep.transform: output buffer is a polyseed_str");
    __CPROVER_havoc_slice(norm, POLYSEED_STR_SIZE);
    norm[r] = '\0';
#ifdef VERIF_TRANSFORM_STRICT
    /* no NUL before position r: the result really has length r */
    __CPROVER_assume(__CPROVER_forall { size_t i; (i < r) ==> norm[i] != '\0' });
#endif
    return r;
}

static size_t stub_nfkd(const char* str, polyseed_str norm) {
    g_nfkd_calls++;
    g_nfkd_in = str;
    g_nfkd_out = norm;
    size_t r = stub_transform_effect(str, norm);
    g_nfkd_ret = r;
    return r;
}

static size_t stub_nfc(const char* str, polyseed_str norm) {
    g_nfc_calls++;
    g_nfc_in = str;
    g_nfc_out = norm;
    if (g_k < POLYSEED_STR_SIZE && __CPROVER_r_ok(str, POLYSEED_STR_SIZE)) g_nfc_in_at_k = str[g_k];
    size_t r = stub_transform_effect(str, norm);
    g_nfc_ret = r;
    return r;
}

static uint64_t stub_time(void) {
    uint64_t t;
    g_time_calls++;
    g_time_value = t;
    return t;
}

/* allocator: NULL, or a fresh block with ARBITRARY contents */
static void* stub_alloc(size_t n) {
    g_alloc_calls++;
    g_alloc_n = n;
    _Bool fail;
    if (fail) {
        g_alloc_failed = 1;
        return NULL;
    }
    __CPROVER_assert(n > 0 && n <= 64, "dep.alloc: request size as expected (one seed object)");
    void* p = malloc(n);
    __CPROVER_assume(p != NULL);
    g_block = p;
    g_live++;
    return p;
}

static void stub_free(void* p) {
    g_free_calls++;
    __CPROVER_assert(p != NULL && p == g_block && g_live == 1,
        "dep.free: only a live block obtained from the injected allocator is freed (no foreign/double free)");
    if (p != NULL && p == g_block && g_live == 1) {
        _Bool z = 1;
        for (size_t i = 0; i < sizeof(polyseed_data); ++i) {
            if (((const uint8_t*)p)[i] != 0) z = 0;
        }
        g_free_block_was_zero = z;
        g_live--;
        free(p);
    }
}

#define DEPS_ARE_STUBS (polyseed_deps.randbytes == &stub_randbytes \
    && polyseed_deps.pbkdf2_sha256 == &stub_pbkdf2 && polyseed_deps.memzero == &stub_memzero \
    && polyseed_deps.u8_nfc == &stub_nfc && polyseed_deps.u8_nfkd == &stub_nfkd \
    && polyseed_deps.time == &stub_time && polyseed_deps.alloc == &stub_alloc \
    && polyseed_deps.free == &stub_free)

/* harness code must take the addresses (function-pointer candidates) */
static inline void deps_install(void) {
    polyseed_deps.randbytes = &stub_randbytes;
    polyseed_deps.pbkdf2_sha256 = &stub_pbkdf2;
    polyseed_deps.memzero = &stub_memzero;
    polyseed_deps.u8_nfc = &stub_nfc;
    polyseed_deps.u8_nfkd = &stub_nfkd;
    polyseed_deps.time = &stub_time;
    polyseed_deps.alloc = &stub_alloc;
    polyseed_deps.free = &stub_free;
}

/* the ghost objects a function using the dependencies may assign (dfcc frame) */
#define GHOST_FRAME G

#endif
