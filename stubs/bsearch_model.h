/* bsearch_model.h -- model of libc bsearch (CBMC 6.11 ships none).
 *
 * This is the textbook algorithm as glibc implements it (bits/stdlib-bsearch.h): half-open interval
 * [l, u), probe the midpoint, go left on a negative outcome, right on a positive one, return the
 * probed element on zero, NULL when the interval is empty.  What remains trusted is only that the libc
 * the library is linked with behaves like this algorithm; the CONTRACT the lang_search proof needs
 * ("finds the matching element when the outcomes are monotone, calls the comparer on (key, element)
 * pairs only, writes nothing") is no longer assumed but follows from this body inside the proof.
 * For 2048 elements the loop runs at most 12 times (exact unrolling, unwinding assertion on). */
#ifndef VERIF_BSEARCH_MODEL_H
#define VERIF_BSEARCH_MODEL_H
#include <stddef.h>
void* bsearch(const void* key, const void* base, size_t nmemb, size_t size,
    int (*compar)(const void*, const void*)) {
    size_t l = 0, u = nmemb;
    while (l < u) {
        size_t idx = (l + u) / 2;
        const void* p = (const void*)((const char*)base + idx * size);
        int comparison = (*compar)(key, p);
        if (comparison < 0) u = idx;
        else if (comparison > 0) l = idx + 1;
        else return (void*)p;
    }
    return NULL;
}
#endif
