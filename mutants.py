"""mutants.py -- fixed list of source mutants for the mutation audit (tools/mutest.py).
(name, file, old, new, units that must kill it)"""
M = []
def m(name, file, old, new, units):
    M.append(dict(name=name, file=file, old=old, new=new, units=units))

m("bday.round_nearest", "src/birthday.h", "return ((time - EPOCH) / TIME_STEP) & DATE_MASK;",
  "return ((time - EPOCH + TIME_STEP / 2) / TIME_STEP) & DATE_MASK;", ["U.bd.encode"])
m("bday.no_minus1", "src/birthday.h", "if (time == (uint64_t)-1 || time < EPOCH) {", "if (time < EPOCH) {", ["U.bd.encode"])
m("gf.mul2_boundary", "src/gf.h", "if (x < 1024) {", "if (x <= 1024) {", ["U.gf.mul2"])
m("gf.horner_dir", "src/gf.h", "for (int i = POLYSEED_NUM_WORDS - 2; i >= 0; --i) {", "for (int i = POLYSEED_NUM_WORDS - 2; i > 0; --i) {", ["U.gf.eval"])
m("st.topbit", "src/storage.c", "if (v1 > FEATURE_MASK) {", "if (v1 > FEATURE_MASK + 1) {", ["U.st.load"])
m("st.no_memset", "src/storage.c", "    memset(data->secret, 0, sizeof(data->secret));\n    memcpy", "    memcpy", ["U.st.load"])
m("split.17", "src/polyseed.c", "        if (w == POLYSEED_NUM_WORDS) {\n            if (*pos != '\\0') {\n                ++w;", "        if (w == POLYSEED_NUM_WORDS) {\n            if (*pos == ' ') {\n                ++w;", ["U.str.split"])
m("split.skip_multi", "src/polyseed.c", "        if (*pos != '\\0') {\n            *pos = '\\0';\n            ++pos;\n        }", "        while (*pos == ' ') {\n            *pos = '\\0';\n            ++pos;\n        }", ["U.str.split"])
m("split.tab", "src/polyseed.c", "while (*pos != '\\0' && *pos != ' ') {", "while (*pos != '\\0' && *pos != ' ' && *pos != '\\t') {", ["U.str.split"])
m("split.ignore_extra", "src/polyseed.c", "            if (*pos != '\\0') {\n                ++w; /* too many words */\n            }\n", "", ["U.str.split"])
m("lazy.off_by_one", "src/dependency.h", "size < POLYSEED_STR_SIZE - 1) {", "size < POLYSEED_STR_SIZE) {", ["U.str.nfkd_lazy"])
m("keygen.iter", "src/polyseed.c", "#define KDF_NUM_ITERATIONS 10000", "#define KDF_NUM_ITERATIONS 1000", ["U.api.keygen"])
m("keygen.pwlen", "src/polyseed.c", "PBKDF2_SHA256(seed->secret, SECRET_BUFFER_SIZE, salt", "PBKDF2_SHA256(seed->secret, SECRET_SIZE, salt", ["U.api.keygen"])
m("create.features_raw", "src/polyseed.c", "seed->features = seed_features;", "seed->features = features;", ["U.api.create"])
m("enable.fastpath", "src/features.c", "    int num_enabled = 0;\n", "    int num_enabled = 0;\n    if ((mask & USER_FEATURES_MASK) == 0) return 0;\n", ["U.ft.enable"])
m("load.order", "src/polyseed.c", "    /* checksum */\n    if (!gf_poly_check(&poly)) {\n        polyseed_free(seed);\n        res = POLYSEED_ERR_CHECKSUM;\n        goto cleanup;\n    }\n\n    /* check features */\n    if (!polyseed_features_supported(seed->features)) {\n        polyseed_free(seed);\n        res = POLYSEED_ERR_UNSUPPORTED;\n        goto cleanup;\n    }\n\n    res = POLYSEED_OK;\n    *seed_out = seed;",
  "    /* check features */\n    if (!polyseed_features_supported(seed->features)) {\n        polyseed_free(seed);\n        res = POLYSEED_ERR_UNSUPPORTED;\n        goto cleanup;\n    }\n\n    /* checksum */\n    if (!gf_poly_check(&poly)) {\n        polyseed_free(seed);\n        res = POLYSEED_ERR_CHECKSUM;\n        goto cleanup;\n    }\n\n    res = POLYSEED_OK;\n    *seed_out = seed;", ["U.api.load"])

m("cmp.str_no_nul", "src/lang.c", "        if (*key == '\\0' || *key != *elm) {\n            break;\n        }\n        ++key;\n        ++elm;\n    }\n    return (*key > *elm) - (*key < *elm);\n}\n\nstatic int compare_str_wrap",
  "        if (*key != *elm) {\n            break;\n        }\n        ++key;\n        ++elm;\n    }\n    return (*key > *elm) - (*key < *elm);\n}\n\nstatic int compare_str_wrap", ["U.cmp.str"])
m("cmp.prefix3", "src/lang.c", "#define NUM_CHARS_PREFIX 4", "#define NUM_CHARS_PREFIX 3", ["B.cmp.prefix"])

m("enc.coin_c0", "src/polyseed.c", "    /* apply coin */\n    poly.coeff[POLY_NUM_CHECK_DIGITS] ^= coin;\n\n    polyseed_str str_tmp;", "    /* apply coin */\n    poly.coeff[0] ^= coin;\n\n    polyseed_str str_tmp;", ["U.api.encode"])
m("enc.no_wipe_str", "src/polyseed.c", "    MEMZERO_LOC(poly);\n    MEMZERO_LOC(str_tmp);\n\n    return str_size;", "    MEMZERO_LOC(poly);\n\n    return str_size;", ["U.api.encode"])
m("enc.len_off", "src/polyseed.c", "        memcpy(str_out, str_tmp, str_size + 1);", "        memcpy(str_out, str_tmp, str_size);", ["U.api.encode"])
m("dec.coin_c0", "src/polyseed.c", "    /* finalize polynomial */\n    poly.coeff[POLY_NUM_CHECK_DIGITS] ^= coin;\n\n    /* checksum */\n    if (!gf_poly_check(&poly)) {\n        res = POLYSEED_ERR_CHECKSUM;\n        goto cleanup;\n    }\n\n    /* alocate memory */\n    seed = ALLOC(sizeof(polyseed_data));\n\n    if (seed == NULL) {\n        res = POLYSEED_ERR_MEMORY;\n        goto cleanup;\n    }\n\n    /* decode polynomial into seed data */\n    polyseed_poly_to_data(&poly, seed);\n\n    /* check features */\n    if (!polyseed_features_supported(seed->features)) {\n        polyseed_free(seed);\n        res = POLYSEED_ERR_UNSUPPORTED;\n        goto cleanup;\n    }\n\n    *seed_out = seed;\n    res = POLYSEED_OK;\n\ncleanup:\n    MEMZERO_LOC(str_tmp);\n    MEMZERO_LOC(words);\n    MEMZERO_LOC(poly);\n    return res;\n}\n\npolyseed_status polyseed_decode_explicit",
  "    /* finalize polynomial */\n    poly.coeff[POLY_NUM_CHECK_DIGITS] ^= (coin & 1023);\n\n    /* checksum */\n    if (!gf_poly_check(&poly)) {\n        res = POLYSEED_ERR_CHECKSUM;\n        goto cleanup;\n    }\n\n    /* alocate memory */\n    seed = ALLOC(sizeof(polyseed_data));\n\n    if (seed == NULL) {\n        res = POLYSEED_ERR_MEMORY;\n        goto cleanup;\n    }\n\n    /* decode polynomial into seed data */\n    polyseed_poly_to_data(&poly, seed);\n\n    /* check features */\n    if (!polyseed_features_supported(seed->features)) {\n        polyseed_free(seed);\n        res = POLYSEED_ERR_UNSUPPORTED;\n        goto cleanup;\n    }\n\n    *seed_out = seed;\n    res = POLYSEED_OK;\n\ncleanup:\n    MEMZERO_LOC(str_tmp);\n    MEMZERO_LOC(words);\n    MEMZERO_LOC(poly);\n    return res;\n}\n\npolyseed_status polyseed_decode_explicit", ["U.api.decode"])
m("crypt.no_checksum", "src/polyseed.c", "    /* calculate new checksum */\n    gf_poly_encode(&poly);\n\n    seed->checksum = poly.coeff[0];\n\n    MEMZERO_LOC(poly);\n    MEMZERO_LOC(mask);", "    MEMZERO_LOC(poly);\n    MEMZERO_LOC(mask);", ["U.api.crypt"])
m("free.no_wipe", "src/polyseed.c", "        MEMZERO_PTR(seed, polyseed_data);\n        FREE(seed);", "        FREE(seed);", ["U.api.free"])
m("pd.first_match", "src/lang.c", "            MEMZERO_LOC(idx);\n            return POLYSEED_ERR_MULT_LANG;", "            break;", ["U.lang.phrase_decode"])
