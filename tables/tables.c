/* tables.c -- exhaustive evaluation of the closed obligations on the word lists (DESIGN.md section 6).
 *
 * Built on every run from the CURRENT /repo sources: this file #includes <repo>/src/lang.c (so the
 * real static comparers and lang_search are called) and is linked with <repo>/src/lang_*.c.
 * Unicode facts use utf8proc (trusted normaliser).  Output: one JSON object per line.
 *
 * Not a CBMC proof: complete evaluation over a finite domain, reported as such.
 */
#define _GNU_SOURCE
#include "src/lang.c"

#include <stdio.h>
#include <stdint.h>
#include <utf8proc.h>

polyseed_dependency polyseed_deps; /* lang.c references it through dependency.h */

static const char* short_name(const polyseed_lang* l) {
    const char* n = l->name_en;
    if (!strcmp(n, "English")) return "en";
    if (!strcmp(n, "Japanese")) return "jp";
    if (!strcmp(n, "Korean")) return "ko";
    if (!strcmp(n, "Spanish")) return "es";
    if (!strcmp(n, "French")) return "fr";
    if (!strcmp(n, "Italian")) return "it";
    if (!strcmp(n, "Czech")) return "cs";
    if (!strcmp(n, "Portuguese")) return "pt";
    if (!strcmp(n, "Chinese (Simplified)")) return "zh_s";
    if (!strcmp(n, "Chinese (Traditional)")) return "zh_t";
    return n;
}

static void jstr(const char* s) {
    putchar('"');
    for (; *s; ++s) {
        unsigned char c = (unsigned char)*s;
        if (c == '"' || c == '\\') { putchar('\\'); putchar(c); }
        else if (c < 0x20) printf("\\u%04x", c);
        else putchar(c);
    }
    putchar('"');
}

static void emit(const char* fact, const char* lang, int ok, long evaluated, const char* detail) {
    printf("{\"name\": \"T.%s[%s]\", \"status\": \"%s\", \"evaluated\": %ld, \"detail\": ", fact, lang,
        ok ? "pass" : "fail", evaluated);
    jstr(detail);
    printf("}\n");
}

/* ---- independent reference acceptance rule (spec section 4) ------------------------------- */
static int ref_strip(const char* s, char* out, int accents) {
    int m = 0;
    for (; *s; ++s) {
        if (accents && (unsigned char)*s >= 0x80) continue;
        out[m++] = *s;
    }
    out[m] = 0;
    return m;
}
static int ref_accept(const polyseed_lang* l, const char* tok, const char* w) {
    char a[512], b[512];
    int na = ref_strip(tok, a, l->has_accents), nb = ref_strip(w, b, l->has_accents);
    if (na == nb && !memcmp(a, b, na)) return 1;
    if (l->has_prefix && na >= 4 /* property statement */ && na < nb && !memcmp(a, b, na)) return 1;
    return 0;
}

static char* norm(const char* s, int nfc) {
    utf8proc_uint8_t* r = nfc ? utf8proc_NFC((const utf8proc_uint8_t*)s) : utf8proc_NFKD((const utf8proc_uint8_t*)s);
    return (char*)r;
}

/* number of UTF-8 characters */
static int u8len(const char* s) { int n = 0; for (; *s; ++s) if (((unsigned char)*s & 0xC0) != 0x80) n++; return n; }
/* byte offset of the c-th character */
static int u8off(const char* s, int c) { int i = 0; for (; s[i]; ++i) { if (((unsigned char)s[i] & 0xC0) != 0x80) { if (c-- == 0) return i; } } return i; }

struct expect { const char* en; int prefix, accents, compose; const char* sep; };
static const struct expect EXPECT[] = {
    {"English", 1, 0, 0, " "}, {"Japanese", 0, 0, 1, "\xe3\x80\x80"}, {"Korean", 0, 0, 1, " "},
    {"Spanish", 1, 1, 1, " "}, {"French", 1, 1, 1, " "}, {"Italian", 1, 0, 0, " "},
    {"Czech", 1, 0, 0, " "}, {"Portuguese", 1, 0, 0, " "},
    {"Chinese (Simplified)", 0, 0, 0, " "}, {"Chinese (Traditional)", 0, 0, 0, " "},
};

int main(int argc, char** argv) {
    const char* dumpdir = argc > 1 ? argv[1] : NULL;
    int thorough = argc > 2 && !strcmp(argv[2], "thorough");
    char buf[4096];
    int nl = polyseed_get_num_langs();

    /* ---- T0 registry ---------------------------------------------------------------------- */
    {
        int ok = (nl == 10);
        char d[1024]; d[0] = 0;
        int seen[10] = {0};
        for (int i = 0; i < nl && i < 64; ++i) {
            const polyseed_lang* l = polyseed_get_lang(i);
            int found = -1;
            for (int e = 0; e < 10; ++e) if (!strcmp(l->name_en, EXPECT[e].en)) found = e;
            if (found < 0) { ok = 0; snprintf(d + strlen(d), sizeof d - strlen(d), "unexpected language %s; ", l->name_en); continue; }
            seen[found]++;
            const struct expect* x = &EXPECT[found];
            if (l->has_prefix != x->prefix || l->has_accents != x->accents || l->compose != x->compose || strcmp(l->separator, x->sep)
                || strcmp(polyseed_get_lang_name_en(l), x->en) || polyseed_get_lang_name(l) != l->name) {
                ok = 0; snprintf(d + strlen(d), sizeof d - strlen(d), "%s: flags/separator differ from the published ones; ", l->name_en);
            }
        }
        for (int e = 0; e < 10; ++e) if (seen[e] != 1) { ok = 0; snprintf(d + strlen(d), sizeof d - strlen(d), "%s present %d times; ", EXPECT[e].en, seen[e]); }
        if (ok) snprintf(d, sizeof d, "10 languages, names, prefix/accent/compose flags and separators as published");
        emit("registry", "all", ok, nl, d);
    }

    for (int li = 0; li < nl; ++li) {
        const polyseed_lang* l = polyseed_get_lang(li);
        const char* sn = short_name(l);
        polyseed_cmp* cmp = get_comparer(l);

        /* dump for the golden digest (T5) */
        if (dumpdir) {
            snprintf(buf, sizeof buf, "%s/%s.txt", dumpdir, sn);
            FILE* f = fopen(buf, "wb");
            if (f) { for (int i = 0; i < POLYSEED_LANG_SIZE; ++i) fprintf(f, "%d\t%s\n", i, l->words[i]); fclose(f); }
        }

        /* ---- T.wordlen: every list element fits the element object of the comparer proofs (units U.cmpf.*) ---- */
        {
            int cap = l->has_accents ? 16 : 64;   /* CMP_EOBJ of the unit that proves this language's comparer */
            int ok = 1, mx = 0; char d[600];
            for (int i = 0; i < POLYSEED_LANG_SIZE; ++i) { int n = (int)strlen(l->words[i]) + 1; if (n > mx) mx = n; if (n > cap) ok = 0; }
            snprintf(d, sizeof d, "longest word with terminator %d bytes, element object of the comparer proof %d bytes", mx, cap);
            emit("wordlen", sn, ok, POLYSEED_LANG_SIZE, d);
        }

        /* ---- T1 sorted ------------------------------------------------------------------- */
        if (l->is_sorted) {
            int ok = 1; char d[600] = "strictly increasing under the language's comparer";
            for (int i = 1; i < POLYSEED_LANG_SIZE; ++i) {
                if (!(cmp(&l->words[i - 1], &l->words[i]) < 0)) {
                    ok = 0; snprintf(d, sizeof d, "words[%d]=%s is not below words[%d]=%s", i - 1, l->words[i - 1], i, l->words[i]); break;
                }
            }
            emit("sorted", sn, ok, POLYSEED_LANG_SIZE - 1, d);
        }

        /* ---- T.sorted_pairs: every pair in list order, not only neighbours (no appeal to transitivity; lemma L.cmp.order) ---- */
        if (l->is_sorted) {
            int ok = 1; long n = 0; char d[600] = "for all i < j: cmp(words[i], words[j]) < 0 under the language's comparer";
            for (int i = 0; i < POLYSEED_LANG_SIZE && ok; ++i) for (int j = i + 1; j < POLYSEED_LANG_SIZE; ++j) {
                n++;
                if (!(cmp(&l->words[i], &l->words[j]) < 0)) { ok = 0; snprintf(d, sizeof d, "words[%d]=%s is not below words[%d]=%s", i, l->words[i], j, l->words[j]); break; }
            }
            emit("sorted_pairs", sn, ok, n, d);
        }

        /* ---- T2 distinct, found at own index ---------------------------------------------- */
        {
            int ok = 1; long n = 0; char d[600] = "all pairs distinct under the comparer; every word found at its own index through the real search";
            for (int i = 0; i < POLYSEED_LANG_SIZE && ok; ++i) {
                if (cmp(&l->words[i], &l->words[i]) != 0) { ok = 0; snprintf(d, sizeof d, "words[%d]=%s does not equal itself", i, l->words[i]); break; }
                int f = polyseed_lang_find_word(l, l->words[i]); n++;
                if (f != i) { ok = 0; snprintf(d, sizeof d, "search(words[%d]=%s) returned %d", i, l->words[i], f); break; }
                for (int j = 0; j < POLYSEED_LANG_SIZE; ++j) {
                    n++;
                    if (i != j && (cmp(&l->words[i], &l->words[j]) == 0 || !strcmp(l->words[i], l->words[j]))) {
                        ok = 0; snprintf(d, sizeof d, "words[%d]=%s typed in full is accepted for words[%d]=%s", i, l->words[i], j, l->words[j]); break;
                    }
                }
            }
            emit("distinct", sn, ok, n, d);
        }

        /* ---- T3 prefix uniqueness --------------------------------------------------------- */
        if (l->has_prefix) {
            int ok = 1; long n = 0; char d[600] = "no two words share their first four accent-stripped letters (hence no word of four or more letters is a prefix of another)";
            static char st[POLYSEED_LANG_SIZE][64]; static int sl[POLYSEED_LANG_SIZE];
            for (int i = 0; i < POLYSEED_LANG_SIZE; ++i) sl[i] = ref_strip(l->words[i], st[i], 1);
            for (int i = 0; i < POLYSEED_LANG_SIZE && ok; ++i) for (int j = 0; j < POLYSEED_LANG_SIZE; ++j) {
                if (i == j) continue; n++;
                int m = sl[i] < 4 ? sl[i] : 4, m2 = sl[j] < 4 ? sl[j] : 4;
                if (m == m2 && !memcmp(st[i], st[j], m)) { ok = 0; snprintf(d, sizeof d, "words[%d]=%s and words[%d]=%s share their first four letters", i, l->words[i], j, l->words[j]); break; }
            }
            emit("first4_unique", sn, ok, n, d);
            /* literal clause "no word is a prefix of another": enumerate ALL offending pairs */
            int np = 0; n = 0;
            printf("{\"name\": \"T.short_prefix[%s]\", \"evaluated\": %d, \"witness\": {\"pairs\": [", sn, POLYSEED_LANG_SIZE * (POLYSEED_LANG_SIZE - 1));
            for (int i = 0; i < POLYSEED_LANG_SIZE; ++i) for (int j = 0; j < POLYSEED_LANG_SIZE; ++j) {
                if (i == j) continue;
                if (sl[i] <= sl[j] && !memcmp(st[i], st[j], sl[i])) { printf("%s\"%d<%d\"", np ? ", " : "", i, j); np++; }
            }
            printf("]}, \"status\": \"%s\", \"detail\": \"%d pairs (word, longer word it is an accent-stripped prefix of); all involve words shorter than four letters iff first4_unique holds\"}\n", np ? "fail" : "pass", np);
        }

        /* ---- T6 token-safe ------------------------------------------------------------------ */
        {
            int ok = 1; char d[300] = "every word is non-empty and contains no ASCII space";
            for (int i = 0; i < POLYSEED_LANG_SIZE; ++i) {
                if (l->words[i][0] == 0 || strchr(l->words[i], ' ')) { ok = 0; snprintf(d, sizeof d, "words[%d] is empty or contains a space", i); break; }
            }
            emit("token_safe", sn, ok, POLYSEED_LANG_SIZE, d);
        }

        /* ---- T7 Unicode facts (utf8proc) ---------------------------------------------------- */
        {
            int ok = 1; long n = 0; char d[700] = "words are NFKD-stable and survive NFC then NFKD, alone and next to their neighbours; separator normalises to one space";
            char* s = norm(l->separator, 0);
            if (strcmp(s, " ")) { ok = 0; snprintf(d, sizeof d, "NFKD(separator) is not a single space"); }
            free(s);
            for (int i = 0; i < POLYSEED_LANG_SIZE && ok; ++i) {
                char* k = norm(l->words[i], 0); n++;
                if (strcmp(k, l->words[i])) { ok = 0; snprintf(d, sizeof d, "words[%d]=%s is not NFKD-normalised", i, l->words[i]); }
                free(k);
                char* c = norm(l->words[i], 1); char* ck = norm(c, 0); n++;
                if (strcmp(ck, l->words[i])) { ok = 0; snprintf(d, sizeof d, "NFKD(NFC(words[%d]=%s)) differs from the word", i, l->words[i]); }
                free(c); free(ck);
                int j = (i + 1) % POLYSEED_LANG_SIZE;
                snprintf(buf, sizeof buf, "%s%s%s", l->words[i], l->separator, l->words[j]);
                char expect[1024]; snprintf(expect, sizeof expect, "%s %s", l->words[i], l->words[j]);
                c = norm(buf, 1); ck = norm(c, 0); n++;
                if (strcmp(ck, expect)) { ok = 0; snprintf(d, sizeof d, "phrase fragment of words %d,%d is not stable under NFC then NFKD", i, j); }
                free(c); free(ck);
                /* first code point must be a starter so that nothing composes across a separator */
                utf8proc_int32_t cp; utf8proc_iterate((const utf8proc_uint8_t*)l->words[i], -1, &cp); n++;
                if (utf8proc_get_property(cp)->combining_class != 0) { ok = 0; snprintf(d, sizeof d, "words[%d] begins with a combining character", i); }
            }
            emit("unicode", sn, ok, n, d);
        }

        /* ---- T8 fits ------------------------------------------------------------------------ */
        {
            /* per-position maxima over the admissible indices: position 2 (third word) carries the
               reserved feature bit as its low bit, so only even indices are admissible there */
            size_t maxk_all = 0, maxc_all = 0, maxk_even = 0, maxc_even = 0; int ik = 0, ic = 0, ike = 0, ice = 0;
            for (int i = 0; i < POLYSEED_LANG_SIZE; ++i) {
                size_t k = strlen(l->words[i]); char* c = norm(l->words[i], 1); size_t cl = strlen(c); free(c);
                if (k > maxk_all) { maxk_all = k; ik = i; } if (cl > maxc_all) { maxc_all = cl; ic = i; }
                if (i % 2 == 0) { if (k > maxk_even) { maxk_even = k; ike = i; } if (cl > maxc_even) { maxc_even = cl; ice = i; } }
            }
            char* sc = norm(l->separator, 1); size_t sepc = strlen(sc); free(sc);
            size_t sepk = strlen(l->separator);
            size_t worst_k = 15 * maxk_all + maxk_even + 15 * sepk;
            size_t worst_c = l->compose ? 15 * maxc_all + maxc_even + 15 * sepc : worst_k;
            int ok = worst_k < POLYSEED_STR_SIZE && worst_c < POLYSEED_STR_SIZE;
            char d[700];
            snprintf(d, sizeof d, "longest phrase: %zu bytes as assembled internally (NFKD), %zu bytes in output form; buffer %d; "
                "longest word index %d (%zu B), longest even-index word %d (%zu B), separator %zu B",
                worst_k, worst_c, POLYSEED_STR_SIZE, ik, maxk_all, ike, maxk_even, sepk);
            printf("{\"name\": \"T.fits[%s]\", \"status\": \"%s\", \"evaluated\": %d, \"detail\": ", sn, ok ? "pass" : "fail", 2 * POLYSEED_LANG_SIZE);
            jstr(d);
            printf(", \"witness\": {\"lang_index\": %d, \"word_any\": %d, \"word_even\": %d, \"word_any_nfc\": %d, \"word_even_nfc\": %d, \"worst_nfkd\": %zu, \"worst_out\": %zu}}\n",
                li, ik, ike, ic, ice, worst_k, worst_c);
        }

        /* ---- T4 acceptance rule through the real search ---------------------------------------- */
        {
            int ok = 1; long n = 0; char d[900];
            snprintf(d, sizeof d, "every prefix length x accent subset x NFC/NFKD spelling of every word, plus one-letter continuations: the real search returns exactly the index the acceptance rule gives");
            int step = thorough ? 1 : 1;
            for (int i = 0; i < POLYSEED_LANG_SIZE && ok; i += step) {
                const char* w = l->words[i];
                int nch = u8len(w);
                /* variants: prefixes by character count, in NFKD spelling and NFC-then-NFKD spelling,
                   with every subset of non-ASCII (accent) characters dropped when the language has accents */
                for (int p = 1; p <= nch + 1 && ok; ++p) {
                    char tok[256];
                    if (p <= nch) { int o = u8off(w, p); memcpy(tok, w, o); tok[o] = 0; }
                    else { snprintf(tok, sizeof tok, "%sx", w); }     /* continues with a letter the word does not have */
                    /* positions of non-ASCII characters in tok */
                    int acc[32], na = 0;
                    if (l->has_accents) for (int b = 0; tok[b] && na < 10; ++b) if (((unsigned char)tok[b] & 0xC0) == 0xC0) acc[na++] = b;
                    for (unsigned m = 0; m < (1u << na) && ok; ++m) {
                        char v[256]; int vo = 0;
                        for (int b = 0; tok[b];) {
                            int cl = 1; while (((unsigned char)tok[b + cl] & 0xC0) == 0x80) cl++;
                            int drop = 0;
                            for (int a = 0; a < na; ++a) if (acc[a] == b && (m >> a & 1)) drop = 1;
                            if (!drop) { memcpy(v + vo, tok + b, cl); vo += cl; }
                            b += cl;
                        }
                        v[vo] = 0;
                        for (int form = 0; form < 2 && ok; ++form) {
                            char* in = form ? norm(v, 1) : strdup(v);      /* what the user types */
                            char* k = norm(in, 0);                          /* what the library looks at after NFKD */
                            int got = polyseed_lang_find_word(l, k);
                            int want = -1;
                            for (int j = 0; j < POLYSEED_LANG_SIZE; ++j) if (ref_accept(l, k, l->words[j])) { want = j; break; }
                            n++;
                            if (got != want) {
                                ok = 0;
                                snprintf(d, sizeof d, "token '%s' (variant of words[%d]=%s): search returned %d, acceptance rule gives %d", in, i, w, got, want);
                            }
                            free(in); free(k);
                        }
                    }
                }
            }
            emit("accept_rule", sn, ok, n, d);
        }
    }

    /* ---- T9 Chinese overlap census ------------------------------------------------------------- */
    {
        const polyseed_lang *a = NULL, *b = NULL;
        for (int i = 0; i < nl; ++i) { const polyseed_lang* l = polyseed_get_lang(i); if (!strcmp(short_name(l), "zh_s")) a = l; if (!strcmp(short_name(l), "zh_t")) b = l; }
        if (a && b) {
            int same_idx = 0, cross = 0;
            for (int i = 0; i < POLYSEED_LANG_SIZE; ++i) {
                if (!strcmp(a->words[i], b->words[i])) same_idx++;
                for (int j = 0; j < POLYSEED_LANG_SIZE; ++j) if (i != j && !strcmp(a->words[i], b->words[j])) cross++;
            }
            char d[300]; snprintf(d, sizeof d, "%d characters shared at the same index, %d shared at different indices (phrases made only of shared characters must give MULT_LANG under auto-detection)", same_idx, cross);
            emit("zh_overlap", "zh_s/zh_t", 1, (long)POLYSEED_LANG_SIZE * POLYSEED_LANG_SIZE, d);
        }
    }
    /* cross-language census: how many full-word collisions exist between any two lists (informational) */
    return 0;
}
