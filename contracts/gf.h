/* gf.h -- contracts for src/gf.h, src/gf.c.  Attached to re-declarations placed after the
 * real definitions (the harness includes "src/gf.c" first). */
#ifndef VERIF_C_GF_H
#define VERIF_C_GF_H

/* dfcc havocs mutable statics: every fact about the doubling table is a precondition */
#ifdef VERIF_NO_TABLE
/* fallback used only when the sources no longer define polyseed_mul2_table (see tools/vlib.py) */
#define TABLE_OK 1
#else
#define TABLE_OK (polyseed_mul2_table[0] == 5 && polyseed_mul2_table[1] == 7 \
    && polyseed_mul2_table[2] == 1 && polyseed_mul2_table[3] == 3 \
    && polyseed_mul2_table[4] == 13 && polyseed_mul2_table[5] == 15 \
    && polyseed_mul2_table[6] == 9 && polyseed_mul2_table[7] == 11)
#endif

#define COEFFS_OK(p) ((p)->coeff[0] < 2048 && (p)->coeff[1] < 2048 && (p)->coeff[2] < 2048 \
    && (p)->coeff[3] < 2048 && (p)->coeff[4] < 2048 && (p)->coeff[5] < 2048 \
    && (p)->coeff[6] < 2048 && (p)->coeff[7] < 2048 && (p)->coeff[8] < 2048 \
    && (p)->coeff[9] < 2048 && (p)->coeff[10] < 2048 && (p)->coeff[11] < 2048 \
    && (p)->coeff[12] < 2048 && (p)->coeff[13] < 2048 && (p)->coeff[14] < 2048 \
    && (p)->coeff[15] < 2048)

static inline unsigned spec_eval_poly_v(gf_poly p) {
    unsigned c[16];
    for (int i = 0; i < 16; ++i) c[i] = (unsigned)p.coeff[i];
    return spec_eval16(c);
}
#define spec_eval_poly(pp) spec_eval_poly_v(*(pp))

/* evaluation with coefficient 0 taken as zero (what gf_poly_encode stores) */
static inline unsigned spec_eval_poly0_v(gf_poly p) {
    unsigned c[16];
    c[0] = 0;
    for (int i = 1; i < 16; ++i) c[i] = (unsigned)p.coeff[i];
    return spec_eval16(c);
}
#define spec_eval_poly0(pp) spec_eval_poly0_v(*(pp))

static inline gf_elem gf_elem_mul2(gf_elem x)
    __CPROVER_requires(x < 2048 && TABLE_OK)
    __CPROVER_ensures(__CPROVER_return_value == spec_mul2((unsigned)x))
    __CPROVER_ensures(__CPROVER_return_value < 2048)
    __CPROVER_assigns();

static gf_elem gf_poly_eval(const gf_poly* poly)
    __CPROVER_requires(__CPROVER_is_fresh(poly, sizeof(*poly)))
    __CPROVER_requires(COEFFS_OK(poly) && TABLE_OK)
    __CPROVER_ensures(__CPROVER_return_value == spec_eval_poly(poly))
    __CPROVER_ensures(__CPROVER_return_value < 2048)
    __CPROVER_assigns();

static inline void gf_poly_encode(gf_poly* message)
    __CPROVER_requires(__CPROVER_is_fresh(message, sizeof(*message)))
    __CPROVER_requires(COEFFS_OK(message) && TABLE_OK)
    __CPROVER_assigns(message->coeff[0])
    __CPROVER_ensures(message->coeff[0] == (__CPROVER_old(message->coeff[0]) ^ spec_eval_poly0(message)))
    __CPROVER_ensures(message->coeff[0] < 2048);

static inline bool gf_poly_check(const gf_poly* message)
    __CPROVER_requires(__CPROVER_is_fresh(message, sizeof(*message)))
    __CPROVER_requires(COEFFS_OK(message) && TABLE_OK)
    __CPROVER_ensures(__CPROVER_return_value == (spec_eval_poly(message) == 0))
    __CPROVER_assigns();


/* ---- packing (src/gf.c) ------------------------------------------------- */

/* by-value helpers: one dereference of each (possibly symbolic) pointer */
static inline bool spec_pack_matches(polyseed_data d, gf_poly p) {
    bool r = true;
    for (unsigned i = 0; i < 15u; ++i) r = r && (p.coeff[1u + i] == spec_word(&d, i));
    return r;
}
void polyseed_data_to_poly(const polyseed_data* data, gf_poly* poly)
    __CPROVER_requires(__CPROVER_is_fresh(data, sizeof(*data)))
    __CPROVER_requires(__CPROVER_is_fresh(poly, sizeof(*poly)))
    __CPROVER_requires(data->birthday < 1024 && data->features < 32)
    __CPROVER_assigns(__CPROVER_object_from(&poly->coeff[1]))
    __CPROVER_ensures(spec_pack_matches(*data, *poly));

static inline unsigned spec_unpack_byte_poly(const gf_poly* p, unsigned j) {
    unsigned c[16];
    for (int i = 0; i < 16; ++i) c[i] = (unsigned)p->coeff[i];
    return spec_unpack_secret_byte(c, j);
}
static inline unsigned spec_unpack_extra_poly(const gf_poly* p) {
    unsigned c[16];
    for (int i = 0; i < 16; ++i) c[i] = (unsigned)p->coeff[i];
    return spec_unpack_extra(c);
}

static inline bool spec_unpack_matches(gf_poly p, polyseed_data d) {
    unsigned c[16];
    for (int i = 0; i < 16; ++i) c[i] = (unsigned)p.coeff[i];
    bool r = (d.checksum == p.coeff[0]);
    unsigned e = spec_unpack_extra(c);
    r = r && d.birthday == (e & 1023u) && d.features == (e >> 10);
    for (unsigned j = 0; j < 32u; ++j) r = r && (d.secret[j] == spec_unpack_secret_byte(c, j));
    return r;
}
static inline bool spec_shape_v(polyseed_data s) { return spec_shape(&s); }
static inline bool spec_canonical_v(polyseed_data s) { return spec_shape(&s) && s.checksum == spec_check(&s); }

void polyseed_poly_to_data(const gf_poly* poly, polyseed_data* data)
    __CPROVER_requires(__CPROVER_is_fresh(poly, sizeof(*poly)))
    __CPROVER_requires(__CPROVER_is_fresh(data, sizeof(*data)))
    __CPROVER_requires(COEFFS_OK(poly))
    __CPROVER_assigns(__CPROVER_object_whole(data))
    __CPROVER_ensures(spec_unpack_matches(*poly, *data))
    __CPROVER_ensures(spec_shape_v(*data));
#endif
