/* gf.h -- contracts for src/gf.h, src/gf.c.  Attached to re-declarations placed after the
 * real definitions (the harness includes "src/gf.c" first). */
#ifndef VERIF_C_GF_H
#define VERIF_C_GF_H

/* dfcc havocs mutable statics: every fact about the doubling table is a precondition */
#define TABLE_OK (polyseed_mul2_table[0] == 5 && polyseed_mul2_table[1] == 7 \
    && polyseed_mul2_table[2] == 1 && polyseed_mul2_table[3] == 3 \
    && polyseed_mul2_table[4] == 13 && polyseed_mul2_table[5] == 15 \
    && polyseed_mul2_table[6] == 9 && polyseed_mul2_table[7] == 11)

#define COEFFS_OK(p) ((p)->coeff[0] < 2048 && (p)->coeff[1] < 2048 && (p)->coeff[2] < 2048 \
    && (p)->coeff[3] < 2048 && (p)->coeff[4] < 2048 && (p)->coeff[5] < 2048 \
    && (p)->coeff[6] < 2048 && (p)->coeff[7] < 2048 && (p)->coeff[8] < 2048 \
    && (p)->coeff[9] < 2048 && (p)->coeff[10] < 2048 && (p)->coeff[11] < 2048 \
    && (p)->coeff[12] < 2048 && (p)->coeff[13] < 2048 && (p)->coeff[14] < 2048 \
    && (p)->coeff[15] < 2048)

static inline unsigned spec_eval_poly(const gf_poly* p) {
    unsigned c[16];
    for (int i = 0; i < 16; ++i) c[i] = (unsigned)p->coeff[i];
    return spec_eval16(c);
}

/* evaluation with coefficient 0 taken as zero (what gf_poly_encode stores) */
static inline unsigned spec_eval_poly0(const gf_poly* p) {
    unsigned c[16];
    c[0] = 0;
    for (int i = 1; i < 16; ++i) c[i] = (unsigned)p->coeff[i];
    return spec_eval16(c);
}

static inline gf_elem gf_elem_mul2(gf_elem x)
    __CPROVER_requires(x < 2048 && TABLE_OK)
    __CPROVER_ensures(__CPROVER_return_value == spec_mul2((unsigned)x))
    __CPROVER_ensures(__CPROVER_return_value < 2048)
    __CPROVER_assigns();

static gf_elem gf_poly_eval(const gf_poly* poly)
    __CPROVER_requires(__CPROVER_is_fresh(poly, sizeof(*poly)))
    __CPROVER_requires(COEFFS_OK(poly) && TABLE_OK)
    __CPROVER_ensures(__CPROVER_return_value == spec_eval_poly(poly))
    __CPROVER_ensures(__CPROVER_return_value < 2048)
    __CPROVER_assigns();

static inline void gf_poly_encode(gf_poly* message)
    __CPROVER_requires(__CPROVER_is_fresh(message, sizeof(*message)))
    __CPROVER_requires(COEFFS_OK(message) && TABLE_OK)
    __CPROVER_assigns(message->coeff[0])
    __CPROVER_ensures(message->coeff[0] == (__CPROVER_old(message->coeff[0]) ^ spec_eval_poly0(message)))
    __CPROVER_ensures(message->coeff[0] < 2048);

static inline bool gf_poly_check(const gf_poly* message)
    __CPROVER_requires(__CPROVER_is_fresh(message, sizeof(*message)))
    __CPROVER_requires(COEFFS_OK(message) && TABLE_OK)
    __CPROVER_ensures(__CPROVER_return_value == (spec_eval_poly(message) == 0))
    __CPROVER_assigns();


/* ---- packing (src/gf.c) ------------------------------------------------- */

#define PACK_ENS(i) __CPROVER_ensures(poly->coeff[1 + (i)] == spec_word(data, (i)))
void polyseed_data_to_poly(const polyseed_data* data, gf_poly* poly)
    __CPROVER_requires(__CPROVER_is_fresh(data, sizeof(*data)))
    __CPROVER_requires(__CPROVER_is_fresh(poly, sizeof(*poly)))
    __CPROVER_requires(data->birthday < 1024 && data->features < 32)
    __CPROVER_assigns(__CPROVER_object_from(&poly->coeff[1]))
    PACK_ENS(0) PACK_ENS(1) PACK_ENS(2) PACK_ENS(3) PACK_ENS(4)
    PACK_ENS(5) PACK_ENS(6) PACK_ENS(7) PACK_ENS(8) PACK_ENS(9)
    PACK_ENS(10) PACK_ENS(11) PACK_ENS(12) PACK_ENS(13) PACK_ENS(14);

static inline unsigned spec_unpack_byte_poly(const gf_poly* p, unsigned j) {
    unsigned c[16];
    for (int i = 0; i < 16; ++i) c[i] = (unsigned)p->coeff[i];
    return spec_unpack_secret_byte(c, j);
}
static inline unsigned spec_unpack_extra_poly(const gf_poly* p) {
    unsigned c[16];
    for (int i = 0; i < 16; ++i) c[i] = (unsigned)p->coeff[i];
    return spec_unpack_extra(c);
}

#define UNPACK_ENS(j) __CPROVER_ensures(data->secret[(j)] == spec_unpack_byte_poly(poly, (j)))
void polyseed_poly_to_data(const gf_poly* poly, polyseed_data* data)
    __CPROVER_requires(__CPROVER_is_fresh(poly, sizeof(*poly)))
    __CPROVER_requires(__CPROVER_is_fresh(data, sizeof(*data)))
    __CPROVER_requires(COEFFS_OK(poly))
    __CPROVER_assigns(__CPROVER_object_whole(data))
    __CPROVER_ensures(data->checksum == poly->coeff[0])
    __CPROVER_ensures(data->birthday == (spec_unpack_extra_poly(poly) & 1023u))
    __CPROVER_ensures(data->features == (spec_unpack_extra_poly(poly) >> 10))
    UNPACK_ENS(0) UNPACK_ENS(1) UNPACK_ENS(2) UNPACK_ENS(3) UNPACK_ENS(4) UNPACK_ENS(5)
    UNPACK_ENS(6) UNPACK_ENS(7) UNPACK_ENS(8) UNPACK_ENS(9) UNPACK_ENS(10) UNPACK_ENS(11)
    UNPACK_ENS(12) UNPACK_ENS(13) UNPACK_ENS(14) UNPACK_ENS(15) UNPACK_ENS(16) UNPACK_ENS(17)
    UNPACK_ENS(18) UNPACK_ENS(19) UNPACK_ENS(20) UNPACK_ENS(21) UNPACK_ENS(22) UNPACK_ENS(23)
    UNPACK_ENS(24) UNPACK_ENS(25) UNPACK_ENS(26) UNPACK_ENS(27) UNPACK_ENS(28) UNPACK_ENS(29)
    UNPACK_ENS(30) UNPACK_ENS(31)
    __CPROVER_ensures(spec_shape(data));
#endif
