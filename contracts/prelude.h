/* prelude.h -- included by every harness BEFORE the real sources. */
#ifndef VERIF_PRELUDE_H
#define VERIF_PRELUDE_H
#include <stddef.h>
#include <stdint.h>
#include <stdbool.h>

#ifdef VERIF_CANARY
#define CANARY() __CPROVER_assert(0, "CANARY must fail (reachability behind the preconditions)")
#else
#define CANARY() ((void)0)
#endif

/* nondeterministic values for harness inputs */
unsigned nondet_unsigned(void);
int nondet_int(void);
uint64_t nondet_u64(void);
size_t nondet_size(void);
uint8_t nondet_u8(void);
char nondet_char(void);
_Bool nondet_bool(void);
void* nondet_ptr(void);

#endif
