/* decode.h -- the contract of polyseed_decode / polyseed_decode_explicit as specification functions of
 * (token count, phrase-decoder outcome, indices, coin, allocator outcome, reserved mask); asserted on the
 * real functions in U.api.decode*, used by the round-trip lemmas L.rt.* */
#ifndef VERIF_C_DECODE_H
#define VERIF_C_DECODE_H
static inline polyseed_status spec_decode_status(int ntok, polyseed_status pd, const unsigned idx[16], unsigned coin,
    bool alloc_failed, unsigned reserved) {
    unsigned c[16];
    for (int i = 0; i < 16; ++i) c[i] = idx[i];
    c[1] ^= coin;
    if (ntok != 16) return POLYSEED_ERR_NUM_WORDS;
    if (pd != POLYSEED_OK) return pd;
    if (spec_eval16(c) != 0) return POLYSEED_ERR_CHECKSUM;
    if (alloc_failed) return POLYSEED_ERR_MEMORY;
    if (!spec_supported(spec_unpack_features(c), reserved)) return POLYSEED_ERR_UNSUPPORTED;
    return POLYSEED_OK;
}
/* on OK the seed handed out is the inverse layout of the indices with the coin removed */
static inline bool spec_decode_seed(const unsigned idx[16], unsigned coin, polyseed_data out) {
    gf_poly p;
    for (int i = 0; i < 16; ++i) p.coeff[i] = idx[i];
    p.coeff[1] ^= coin;
    return spec_unpack_matches(p, out);
}
#endif
