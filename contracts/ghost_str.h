/* ghost_str.h -- ghost variables referenced by woven loop invariants; included BEFORE the sources */
#ifndef VERIF_GHOST_STR_H
#define VERIF_GHOST_STR_H
#include <stddef.h>
#include "polyseed.h"   /* POLYSEED_STR_SIZE */
size_t g_in_len;   /* index of a NUL inside the caller's string object (harness assumes str[g_in_len] == 0) */
size_t g_k;        /* arbitrary but fixed index */
#define VERIF_HAVE_GK
size_t g_j;        /* arbitrary but fixed token index */
char g_snap_k;     /* original value of the caller's byte g_k (set by the harness) */
const char* g_snap_word; /* original value of words[g_j] (set by the harness) */
/* the "arbitrary but fixed" ghost indices must really be arbitrary: static objects are zero-initialised unless a
   goto-instrument contract pass havocs them, so every harness sets them explicitly as its first statement */
size_t nondet_size(void);
#define GHOST_INDICES_ARBITRARY() do { g_k = nondet_size(); g_j = nondet_size(); g_in_len = nondet_size(); } while (0)
/* offset of pointer p relative to pointer base (same object) -- avoids pointer relations on havocked pointers */
#define VOFF(p, base) ((size_t)(__CPROVER_POINTER_OFFSET(p) - __CPROVER_POINTER_OFFSET(base)))
/* str_split functional specification vocabulary */
char g_orig[POLYSEED_STR_SIZE];  /* ghost copy of the caller's polyseed_str before the call (harness) */
#define O(i) g_orig[(i)]
#define PO VOFF(pos, str)
#define WO VOFF(word, str)
#define SW(j) VOFF(words[(j)], str)
#define NOSEP(c) ((c) != ' ' && (c) != '\0')
#define FA_K(e) __CPROVER_forall { size_t k_; (k_ < POLYSEED_STR_SIZE) ==> (e) }
#define FA_J(e) __CPROVER_forall { size_t j_; (j_ < 16) ==> (e) }
size_t g_exit_pos;
unsigned g_split_exits;
#define VERIF_EXIT_str_split (g_exit_pos = VOFF(pos, str), g_split_exits++)
/* write_str entry recording (see loops.spec) */
const char* g_ws_src;
size_t g_ws_len;
size_t g_ws_S;
char g_ws_snapk;
unsigned g_ws_calls;
size_t verif_strlen_ghost(const char* s);   /* provided by the harness: index of the terminator of s */
#define WD VOFF(loc, *pos)
#define WBASE ((*pos) - g_ws_S)
#define VERIF_ENTRY_write_str do { g_ws_src = str; g_ws_len = verif_strlen_ghost(str); \
    g_ws_S = __CPROVER_POINTER_OFFSET(*pos); \
    __CPROVER_assert(__CPROVER_OBJECT_SIZE(*pos) == POLYSEED_STR_SIZE, "write_str: destination is a polyseed_str"); \
    __CPROVER_assert(g_ws_S + g_ws_len < POLYSEED_STR_SIZE, "write_str: room for the string and a terminator (caller's obligation: phrase fits the buffer)"); \
    g_ws_snapk = (g_k < POLYSEED_STR_SIZE) ? ((*pos) - g_ws_S)[g_k] : 0; g_ws_calls++; } while (0)
/* comparers (see loops.spec) */
const char* g_c_key0;
const char* g_c_elm0;
size_t g_c_klen, g_c_elen;
size_t g_c_exit_k, g_c_exit_e;
unsigned g_c_exits;
#define KO VOFF(key, g_c_key0)
#define EO VOFF(elm, g_c_elm0)
#define CMP_INB (__CPROVER_same_object(key, g_c_key0) && __CPROVER_same_object(elm, g_c_elm0) \
    && KO <= g_c_klen && EO <= g_c_elen && g_c_key0[g_c_klen] == '\0' && g_c_elm0[g_c_elen] == '\0')
#define CMP_ENTRY do { g_c_key0 = key; g_c_elm0 = elm; g_c_klen = verif_strlen_ghost(key); g_c_elen = verif_strlen_ghost(elm); } while (0)
#define CMP_EXIT (g_c_exit_k = KO, g_c_exit_e = EO, g_c_exits++)
#define VERIF_ENTRY_compare_str CMP_ENTRY
#define VERIF_ENTRY_compare_prefix CMP_ENTRY
#define VERIF_ENTRY_compare_str_noaccent CMP_ENTRY
#define VERIF_ENTRY_compare_prefix_noaccent CMP_ENTRY
#define VERIF_EXIT_compare_str CMP_EXIT
#define VERIF_EXIT_compare_prefix CMP_EXIT
#define VERIF_EXIT_compare_str_noaccent CMP_EXIT
#define VERIF_EXIT_compare_prefix_noaccent CMP_EXIT
/* comparers, functional rule (profile cmpf): base-letter counts and stripped strings, fixed by harness axioms.
   g_ck[p] = number of base bytes (non-NUL, < 0x80 where the language has accents; non-NUL otherwise) in key[0..p),
   g_sk    = the key with its non-base bytes removed (NUL-terminated); g_ce / g_se the same for the list element. */
#ifndef CMP_KOBJ
#define CMP_KOBJ POLYSEED_STR_SIZE
#endif
#ifndef CMP_EOBJ
#define CMP_EOBJ 64
#endif
/* declared extern and never defined: CBMC gives such objects arbitrary initial contents */
extern unsigned short g_ck[CMP_KOBJ + 1], g_ce[CMP_EOBJ + 1];
extern char g_sk[CMP_EOBJ + 1], g_se[CMP_EOBJ + 1];   /* only the first CMP_EOBJ stripped letters of the key can matter */
#define FA_E(e) __CPROVER_forall { size_t k_; (k_ < CMP_EOBJ) ==> (e) }
#define CK ((size_t)g_ck[KO])
#define CE ((size_t)g_ce[EO])
#define NK ((size_t)g_ck[g_c_klen])
#define NE ((size_t)g_ce[g_c_elen])
/* lang_search: arbitrary but fixed comparison outcomes of the key against element i (stub comparer) */
signed char g_cmp[2048];
/* polyseed_phrase_decode exit: the local index copy must be wiped (C16) */
unsigned g_pd_exits;
_Bool g_pd_idx_zero_at_exit;
#define VERIF_EXIT_polyseed_phrase_decode do { _Bool z_ = 1; \
    for (int i_ = 0; i_ < POLYSEED_NUM_WORDS; ++i_) if (idx[i_] != 0) z_ = 0; \
    g_pd_idx_zero_at_exit = z_; g_pd_exits++; } while (0)
/* exit recording for the API functions with secret-bearing locals (C16): address and size of each
   local that must have been wiped, and its byte at the arbitrary index g_k / whether it is all zero */
struct verif_exit_rec { const void* addr; size_t size; _Bool zero; };
struct verif_exit_rec g_x_str, g_x_words, g_x_poly, g_x_mask, g_x_pass;
unsigned g_x_exits;
#define X_REC(rec, obj) do { (rec).addr = &(obj); (rec).size = sizeof(obj); _Bool z_ = 1; \
    for (size_t i_ = 0; i_ < sizeof(obj); ++i_) if (((const unsigned char*)&(obj))[i_] != 0) z_ = 0; (rec).zero = z_; } while (0)
#define VERIF_EXIT_polyseed_decode do { X_REC(g_x_str, str_tmp); X_REC(g_x_words, words); X_REC(g_x_poly, poly); g_x_exits++; } while (0)
#define VERIF_EXIT_polyseed_decode_explicit VERIF_EXIT_polyseed_decode
#define VERIF_EXIT_polyseed_crypt do { X_REC(g_x_pass, pass_norm); X_REC(g_x_mask, mask); X_REC(g_x_poly, poly); g_x_exits++; } while (0)
#define VERIF_EXIT_polyseed_encode do { X_REC(g_x_str, str_tmp); X_REC(g_x_poly, poly); g_x_exits++; } while (0)
/* utf8_nfkd_lazy exit recording */
size_t g_lazy_size;
unsigned g_lazy_exits;
#define VERIF_EXIT_utf8_nfkd_lazy (g_lazy_size = size, g_lazy_exits++)
#endif
