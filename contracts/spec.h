/* spec.h -- specification vocabulary (DESIGN.md section 4).
 *
 * Pure C, written from the property statements and the README, NOT from the
 * function bodies.  Included by harnesses AFTER the real library sources, so
 * that `polyseed_data`, `gf_poly`, `gf_elem` are the library's own types.
 * Every loop here has a literal constant trip count.
 */
#ifndef VERIF_SPEC_H
#define VERIF_SPEC_H

#include <stdint.h>
#include <stddef.h>
#include <stdbool.h>

/* ---- field GF(2^11) = GF(2)[x] / (x^11 + x^2 + 1) ---------------------- */

#define SPEC_GF_SIZE 2048u
#define SPEC_GF_POLY 0x805u /* x^11 + x^2 + 1 */

static inline unsigned spec_mul2(unsigned x) {
    return ((x << 1) ^ ((x & 1024u) ? SPEC_GF_POLY : 0u));
}

/* value at x = 2 of c[0] + c[1] x + ... + c[15] x^15 */
static inline unsigned spec_eval16(const unsigned c[16]) {
    unsigned r = c[15];
    for (int i = 14; i >= 0; --i) {
        r = spec_mul2(r) ^ c[i];
    }
    return r;
}

/* ---- abstract seed view and published layout --------------------------- */

/* bit k (0..149) of the 150-bit secret, most significant first:
   bytes 0..17 in order, then the low 6 bits of byte 18 */
static inline unsigned spec_secret_bit(const uint8_t* secret, unsigned k) {
    if (k < 144u) {
        return (secret[k / 8u] >> (7u - (k % 8u))) & 1u;
    }
    return (secret[18] >> (5u - (k - 144u))) & 1u;
}

/* data word i (0..14) = phrase word i+2:
   10 secret bits (MSB first) followed by bit (14-i) of features<<10|birthday */
static inline unsigned spec_word_raw(const uint8_t* secret, unsigned birthday,
    unsigned features, unsigned i) {
    unsigned v = 0;
    for (unsigned b = 0; b < 10u; ++b) {
        v = (v << 1) | spec_secret_bit(secret, 10u * i + b);
    }
    unsigned extra = (features << 10) | birthday;
    return (v << 1) | ((extra >> (14u - i)) & 1u);
}

#define spec_word(s, i) \
    spec_word_raw((s)->secret, (s)->birthday, (s)->features, (i))

/* representation invariant without the check value */
#define spec_shape(s) \
    ((s)->birthday < 1024u && (s)->features < 32u && (s)->secret[18] < 64u \
    && (s)->secret[19] == 0 && (s)->secret[20] == 0 && (s)->secret[21] == 0 \
    && (s)->secret[22] == 0 && (s)->secret[23] == 0 && (s)->secret[24] == 0 \
    && (s)->secret[25] == 0 && (s)->secret[26] == 0 && (s)->secret[27] == 0 \
    && (s)->secret[28] == 0 && (s)->secret[29] == 0 && (s)->secret[30] == 0 \
    && (s)->secret[31] == 0)

/* the unique check value: c0 such that eval(c0, w0..w14) == 0.
   eval is c0 ^ (x * rest), so c0 = eval with c0 := 0 */
static inline unsigned spec_check_raw(const uint8_t* secret, unsigned birthday,
    unsigned features) {
    unsigned c[16];
    c[0] = 0;
    for (unsigned i = 0; i < 15u; ++i) {
        c[i + 1] = spec_word_raw(secret, birthday, features, i);
    }
    return spec_eval16(c);
}
#define spec_check(s) \
    spec_check_raw((s)->secret, (s)->birthday, (s)->features)

#define spec_canonical(s) \
    (spec_shape(s) && (s)->checksum == spec_check(s))

/* coefficient i (0..15) of the phrase for `coin` */
static inline unsigned spec_coeff_raw(const uint8_t* secret, unsigned birthday,
    unsigned features, unsigned checksum, unsigned coin, unsigned i) {
    if (i == 0) {
        return checksum;
    }
    unsigned w = spec_word_raw(secret, birthday, features, i - 1u);
    return (i == 1u) ? (w ^ coin) : w;
}

/* inverse layout: fields from 15 data words c[1..15] */
static inline unsigned spec_unpack_secret_byte(const unsigned c[16], unsigned j) {
    /* byte j (0..18) of the secret; byte 18 holds 6 bits */
    unsigned v = 0;
    if (j < 18u) {
        for (unsigned b = 0; b < 8u; ++b) {
            unsigned k = 8u * j + b;
            v = (v << 1) | ((c[1u + k / 10u] >> (10u - (k % 10u))) & 1u);
        }
    }
    else if (j == 18u) {
        for (unsigned b = 0; b < 6u; ++b) {
            unsigned k = 144u + b;
            v = (v << 1) | ((c[1u + k / 10u] >> (10u - (k % 10u))) & 1u);
        }
    }
    return v;
}

static inline unsigned spec_unpack_extra(const unsigned c[16]) {
    unsigned e = 0;
    for (unsigned i = 0; i < 15u; ++i) {
        e = (e << 1) | (c[1u + i] & 1u);
    }
    return e;
}
#define spec_unpack_birthday(c) (spec_unpack_extra(c) & 1023u)
#define spec_unpack_features(c) (spec_unpack_extra(c) >> 10)

/* ---- storage image ------------------------------------------------------ */

static inline unsigned spec_image_raw(const uint8_t* secret, unsigned birthday,
    unsigned features, unsigned checksum, unsigned i) {
    unsigned v1 = (features << 10) | birthday;
    unsigned v2 = 0x7000u | checksum;
    switch (i) {
    case 0: return 'P';
    case 1: return 'O';
    case 2: return 'L';
    case 3: return 'Y';
    case 4: return 'S';
    case 5: return 'E';
    case 6: return 'E';
    case 7: return 'D';
    case 8: return v1 & 0xffu;
    case 9: return (v1 >> 8) & 0xffu;
    case 29: return 0xffu;
    case 30: return v2 & 0xffu;
    case 31: return (v2 >> 8) & 0xffu;
    default: return secret[i - 10u]; /* 10..28 -> secret[0..18] */
    }
}
#define spec_image(s, i) \
    spec_image_raw((s)->secret, (s)->birthday, (s)->features, (s)->checksum, (i))

static inline bool spec_wellformed(const uint8_t* b) {
    return b[0] == 'P' && b[1] == 'O' && b[2] == 'L' && b[3] == 'Y'
        && b[4] == 'S' && b[5] == 'E' && b[6] == 'E' && b[7] == 'D'
        && (b[9] & 0x80u) == 0 && (b[28] & 0xC0u) == 0
        && b[29] == 0xffu && (b[31] & 0xF8u) == 0x70u;
}

/* ---- key derivation inputs --------------------------------------------- */

#define SPEC_KDF_ITER 10000u

static inline unsigned spec_kdf_salt(unsigned birthday, unsigned features,
    unsigned coin, unsigned i) {
    /* "POLYSEED key" 00 FF FF FF LE32(coin) LE32(birthday) LE32(features) 00000000 */
    switch (i) {
    case 0: return 'P';
    case 1: return 'O';
    case 2: return 'L';
    case 3: return 'Y';
    case 4: return 'S';
    case 5: return 'E';
    case 6: return 'E';
    case 7: return 'D';
    case 8: return ' ';
    case 9: return 'k';
    case 10: return 'e';
    case 11: return 'y';
    case 12: return 0;
    case 13: return 0xffu;
    case 14: return 0xffu;
    case 15: return 0xffu;
    case 16: case 17: case 18: case 19:
        return (coin >> (8u * (i - 16u))) & 0xffu;
    case 20: case 21: case 22: case 23:
        return (birthday >> (8u * (i - 20u))) & 0xffu;
    case 24: case 25: case 26: case 27:
        return (features >> (8u * (i - 24u))) & 0xffu;
    default: return 0;
    }
}

static inline unsigned spec_mask_salt(unsigned i) {
    /* "POLYSEED mask" 00 FF FF */
    switch (i) {
    case 0: return 'P';
    case 1: return 'O';
    case 2: return 'L';
    case 3: return 'Y';
    case 4: return 'S';
    case 5: return 'E';
    case 6: return 'E';
    case 7: return 'D';
    case 8: return ' ';
    case 9: return 'm';
    case 10: return 'a';
    case 11: return 's';
    case 12: return 'k';
    case 13: return 0;
    default: return 0xffu; /* 14, 15 */
    }
}

/* ---- birthday ----------------------------------------------------------- */

#define SPEC_EPOCH 1635768000ull
#define SPEC_STEP 2629746ull

/* division-free: k is the month index reported for clock value t */
static inline bool spec_bday_ok(uint64_t t, uint64_t k) {
    if (k >= 1024u) return false;
    uint64_t B = SPEC_EPOCH + k * SPEC_STEP;              /* < 2^33, no wrap */
    if (t == UINT64_MAX || t < SPEC_EPOCH) return k == 0;
    if (B > t) return false;                              /* never later than t */
    if (t < SPEC_EPOCH + 1024u * SPEC_STEP) return t < B + SPEC_STEP;
    return true;
}

/* ---- features ----------------------------------------------------------- */

static inline bool spec_reserved_ok(unsigned reserved) {
    return (reserved & ~7u) == 8u; /* 15 ^ m, m < 8 */
}
#define spec_supported(f, reserved) (((f) & (reserved)) == 0)

static inline unsigned spec_popcount3(unsigned m) {
    return (m & 1u) + ((m >> 1) & 1u) + ((m >> 2) & 1u);
}

#endif
