/* api.h -- contracts for the API functions of src/polyseed.c that are verified in mode D (dfcc).
 * The harness includes src/features.c, src/polyseed.c, spec.h, gf.h, storage.h, misc.h, deps.h first. */
#ifndef VERIF_C_API_H
#define VERIF_C_API_H

/* the seed object handed out by a constructor is the block the allocator stub delivered;
   postconditions go through the ghost pointer (never an arbitrary caller value) */
#define GBLOCK ((polyseed_data*)g_block)

static inline bool spec_eq_bytes32(const uint8_t* a, const uint8_t* b) {
    bool r = true;
    for (int i = 0; i < 32; ++i) r = r && (a[i] == b[i]);
    return r;
}
static inline bool spec_salt_is_kdf_salt(const uint8_t* salt, unsigned birthday, unsigned features, unsigned coin) {
    bool r = true;
    for (unsigned i = 0; i < 32; ++i) r = r && (salt[i] == spec_kdf_salt(birthday, features, coin, i));
    return r;
}

#define KEY_MAX 64

/* C04 */
void polyseed_keygen(const polyseed_data* seed, polyseed_coin coin, size_t key_size, uint8_t* key_out)
    __CPROVER_requires(DEPS_ARE_STUBS && GHOST_ZERO)
    __CPROVER_requires(__CPROVER_is_fresh(seed, sizeof(*seed)))
    __CPROVER_requires((unsigned)coin < 2048u)
    __CPROVER_requires(key_size >= 1 && key_size <= KEY_MAX && __CPROVER_is_fresh(key_out, key_size))
    __CPROVER_assigns(GHOST_FRAME, __CPROVER_object_whole(key_out))
    /* exactly one KDF call, with exactly these arguments */
    __CPROVER_ensures(g_kdf_calls == 1)
    __CPROVER_ensures(g_kdf_pw == seed->secret && g_kdf_pwlen == 32)
    __CPROVER_ensures(spec_eq_bytes32(g_kdf_pw_copy, seed->secret))
    __CPROVER_ensures(g_kdf_saltlen == 32)
    __CPROVER_ensures(spec_salt_is_kdf_salt(g_kdf_salt_copy, seed->birthday, seed->features, (unsigned)coin))
    __CPROVER_ensures(g_kdf_iter == SPEC_KDF_ITER)
    __CPROVER_ensures(g_kdf_key == key_out && g_kdf_keylen == key_size)
    /* the key is neither rewritten nor post-processed: what the caller sees is what the KDF wrote */
    __CPROVER_ensures(g_k >= key_size || key_out[g_k] == g_kdf_out_at_k)
    /* nothing else is consulted */
    __CPROVER_ensures(g_rand_calls == 0 && g_time_calls == 0 && g_alloc_calls == 0 && g_free_calls == 0
        && g_nfc_calls == 0 && g_nfkd_calls == 0);


/* ---- polyseed_free (C15, C16) ------------------------------------------- */
void polyseed_free(polyseed_data* seed)
    __CPROVER_requires(DEPS_ARE_STUBS)
    __CPROVER_requires(seed == NULL || __CPROVER_is_fresh(seed, sizeof(polyseed_data)))
    __CPROVER_requires(seed == NULL || (seed == g_block && g_live == 1))
    __CPROVER_requires(g_mz_count < G_MZ_MAX)
    __CPROVER_assigns(GHOST_FRAME; seed != NULL: __CPROVER_object_whole(seed))
    __CPROVER_frees(seed)
    /* NULL: no action at all */
    __CPROVER_ensures(seed != NULL || (g_mz_count == __CPROVER_old(g_mz_count)
        && g_free_calls == __CPROVER_old(g_free_calls) && g_live == __CPROVER_old(g_live)))
    /* otherwise: wiped through the injected function, then freed, once each, in that order */
    __CPROVER_ensures(seed == NULL || (g_mz_count == __CPROVER_old(g_mz_count) + 1
        && g_mz_ptr[__CPROVER_old(g_mz_count)] == seed
        && g_mz_len[__CPROVER_old(g_mz_count)] == sizeof(polyseed_data)))
    __CPROVER_ensures(seed == NULL || (g_free_calls == __CPROVER_old(g_free_calls) + 1
        && g_free_block_was_zero && g_live == 0))
    __CPROVER_ensures(g_rand_calls == __CPROVER_old(g_rand_calls) && g_time_calls == __CPROVER_old(g_time_calls)
        && g_alloc_calls == __CPROVER_old(g_alloc_calls) && g_kdf_calls == __CPROVER_old(g_kdf_calls)
        && g_nfc_calls == __CPROVER_old(g_nfc_calls) && g_nfkd_calls == __CPROVER_old(g_nfkd_calls)
        && g_alloc_failed == __CPROVER_old(g_alloc_failed) && g_block == __CPROVER_old(g_block)
        && g_alloc_n == __CPROVER_old(g_alloc_n));

/* ---- polyseed_create (C10, C11, C13, C15, C18) -------------------------- */
static inline bool spec_create_secret_ok(polyseed_data s) {
    bool r = true;
    for (int i = 0; i < 18; ++i) r = r && (s.secret[i] == g_rand_bytes[i]);
    r = r && (s.secret[18] == (g_rand_bytes[18] & 0x3f));
    for (int i = 19; i < 32; ++i) r = r && (s.secret[i] == 0);
    return r;
}

polyseed_status polyseed_create(unsigned features, polyseed_data** seed_out)
    __CPROVER_requires(DEPS_ARE_STUBS && GHOST_ZERO && TABLE_OK)
    __CPROVER_requires(__CPROVER_is_fresh(seed_out, sizeof(*seed_out)))
    __CPROVER_assigns(GHOST_FRAME, *seed_out)
    __CPROVER_ensures(__CPROVER_return_value == POLYSEED_OK || __CPROVER_return_value == POLYSEED_ERR_UNSUPPORTED
        || __CPROVER_return_value == POLYSEED_ERR_MEMORY)
    /* refused before allocating, exactly when a requested user bit is not enabled */
    __CPROVER_ensures((__CPROVER_return_value == POLYSEED_ERR_UNSUPPORTED)
        == !spec_supported(features & 7u, reserved_features))
    __CPROVER_ensures(__CPROVER_return_value != POLYSEED_ERR_UNSUPPORTED || (g_alloc_calls == 0
        && g_rand_calls == 0 && g_time_calls == 0))
    /* allocator failure */
    __CPROVER_ensures((__CPROVER_return_value == POLYSEED_ERR_MEMORY) == (g_alloc_calls == 1 && g_alloc_failed))
    __CPROVER_ensures(__CPROVER_return_value == POLYSEED_OK || (g_live == 0 && g_free_calls == 0
        && *seed_out == __CPROVER_old(*seed_out) && g_rand_calls == 0))
    /* success */
    __CPROVER_ensures(__CPROVER_return_value != POLYSEED_OK || (g_alloc_calls == 1 && !g_alloc_failed
        && g_alloc_n == sizeof(polyseed_data) && *seed_out == g_block && g_live == 1 && g_free_calls == 0))
    __CPROVER_ensures(__CPROVER_return_value != POLYSEED_OK || (g_rand_calls == 1
        && g_rand_ptr == GBLOCK->secret && g_rand_n == 19 && spec_create_secret_ok(*GBLOCK)))
    __CPROVER_ensures(__CPROVER_return_value != POLYSEED_OK || (g_time_calls == 1
        && spec_bday_ok(g_time_value, GBLOCK->birthday)))
    __CPROVER_ensures(__CPROVER_return_value != POLYSEED_OK || GBLOCK->features == (features & 7u))
    __CPROVER_ensures(__CPROVER_return_value != POLYSEED_OK || spec_canonical_v(*GBLOCK))
    __CPROVER_ensures(g_kdf_calls == 0 && g_nfc_calls == 0 && g_nfkd_calls == 0 && g_alloc_calls <= 1);

/* ---- getters ------------------------------------------------------------- */
uint64_t polyseed_get_birthday(const polyseed_data* data)
    __CPROVER_requires(__CPROVER_is_fresh(data, sizeof(*data)) && data->birthday < 1024)
    __CPROVER_assigns()
    __CPROVER_ensures(__CPROVER_return_value == SPEC_EPOCH + (uint64_t)data->birthday * SPEC_STEP);

unsigned polyseed_get_feature(const polyseed_data* seed, unsigned mask)
    __CPROVER_requires(__CPROVER_is_fresh(seed, sizeof(*seed)))
    __CPROVER_assigns()
    __CPROVER_ensures(__CPROVER_return_value == (seed->features & mask & 7u));

int polyseed_is_encrypted(const polyseed_data* seed)
    __CPROVER_requires(__CPROVER_is_fresh(seed, sizeof(*seed)))
    __CPROVER_assigns()
    __CPROVER_ensures(__CPROVER_return_value == ((seed->features & 16u) ? 1 : 0));

/* ---- polyseed_store ------------------------------------------------------ */
void polyseed_store(const polyseed_data* seed, polyseed_storage storage)
    __CPROVER_requires(__CPROVER_is_fresh(seed, sizeof(*seed)))
    __CPROVER_requires(__CPROVER_is_fresh(storage, 32))
    __CPROVER_requires(spec_shape_v(*seed) && seed->checksum < 2048)
    __CPROVER_assigns(__CPROVER_object_whole(storage))
    __CPROVER_ensures(spec_image_matches(*seed, storage));

/* ---- polyseed_load (C06, C10, C13, C15) ---------------------------------- */
static inline unsigned spec_buf_features(const uint8_t* b) { return (((unsigned)b[9] << 8) | b[8]) >> 10; }
static inline unsigned spec_buf_birthday(const uint8_t* b) { return (((unsigned)b[9] << 8) | b[8]) & 1023u; }
static inline unsigned spec_buf_checksum(const uint8_t* b) { return (((unsigned)b[31] << 8) | b[30]) & 2047u; }
static inline bool spec_buf_check_ok(const uint8_t* b) {
    /* spec_check_raw reads secret[0..18] only: the 19 secret bytes of the image */
    return spec_buf_checksum(b) == spec_check_raw(b + 10, spec_buf_birthday(b), spec_buf_features(b));
}
#define LOAD_RET __CPROVER_return_value
polyseed_status polyseed_load(const polyseed_storage storage, polyseed_data** seed_out)
    __CPROVER_requires(DEPS_ARE_STUBS && GHOST_ZERO && TABLE_OK)
    __CPROVER_requires(__CPROVER_is_fresh(storage, 32))
    __CPROVER_requires(__CPROVER_is_fresh(seed_out, sizeof(*seed_out)))
    __CPROVER_assigns(GHOST_FRAME, *seed_out)
    __CPROVER_ensures(g_alloc_calls == 1 && g_alloc_n == sizeof(polyseed_data))
    /* status precedence: memory, format, checksum, unsupported */
    __CPROVER_ensures((LOAD_RET == POLYSEED_ERR_MEMORY) == g_alloc_failed)
    __CPROVER_ensures((LOAD_RET == POLYSEED_ERR_FORMAT) == (!g_alloc_failed && !spec_wellformed(storage)))
    __CPROVER_ensures((LOAD_RET == POLYSEED_ERR_CHECKSUM) == (!g_alloc_failed && spec_wellformed(storage)
        && !spec_buf_check_ok(storage)))
    __CPROVER_ensures((LOAD_RET == POLYSEED_ERR_UNSUPPORTED) == (!g_alloc_failed && spec_wellformed(storage)
        && spec_buf_check_ok(storage) && !spec_supported(spec_buf_features(storage), reserved_features)))
    __CPROVER_ensures((LOAD_RET == POLYSEED_OK) == (!g_alloc_failed && spec_wellformed(storage)
        && spec_buf_check_ok(storage) && spec_supported(spec_buf_features(storage), reserved_features)))
    /* no seed on failure: the block went back through the injected free, wiped, exactly once */
    __CPROVER_ensures(LOAD_RET == POLYSEED_OK || (g_live == 0 && *seed_out == __CPROVER_old(*seed_out)
        && (g_alloc_failed ? g_free_calls == 0 : (g_free_calls == 1 && g_free_block_was_zero))))
    /* success: the live block is the seed; it is canonical and its image is the buffer */
    __CPROVER_ensures(LOAD_RET != POLYSEED_OK || (g_live == 1 && g_free_calls == 0 && *seed_out == g_block))
    __CPROVER_ensures(LOAD_RET != POLYSEED_OK || spec_canonical_v(*GBLOCK))
    __CPROVER_ensures(LOAD_RET != POLYSEED_OK || spec_image_matches(*GBLOCK, storage))
    __CPROVER_ensures(g_rand_calls == 0 && g_time_calls == 0 && g_kdf_calls == 0 && g_nfc_calls == 0
        && g_nfkd_calls == 0);
#endif
