/* misc.h -- contracts for src/birthday.h and src/features.h / features.c */
#ifndef VERIF_C_MISC_H
#define VERIF_C_MISC_H

static inline unsigned birthday_encode(uint64_t time)
    __CPROVER_ensures(spec_bday_ok(time, __CPROVER_return_value))
    __CPROVER_assigns();

static inline uint64_t birthday_decode(unsigned birthday)
    __CPROVER_requires(birthday < 1024)
    __CPROVER_ensures(__CPROVER_return_value == SPEC_EPOCH + (uint64_t)birthday * SPEC_STEP)
    __CPROVER_assigns();

static inline unsigned make_features(unsigned user_features)
    __CPROVER_ensures(__CPROVER_return_value == (user_features & 7u))
    __CPROVER_assigns();

static inline unsigned get_features(unsigned features, unsigned mask)
    __CPROVER_ensures(__CPROVER_return_value == (features & mask & 7u))
    __CPROVER_assigns();

static inline bool is_encrypted(unsigned features)
    __CPROVER_ensures(__CPROVER_return_value == ((features & 16u) != 0))
    __CPROVER_assigns();

#ifdef VERIF_HAVE_FEATURES_C
bool polyseed_features_supported(unsigned features)
    __CPROVER_ensures(__CPROVER_return_value == spec_supported(features, reserved_features))
    __CPROVER_assigns();

int polyseed_enable_features(unsigned mask)
    __CPROVER_assigns(reserved_features)
    __CPROVER_ensures(reserved_features == (15u ^ (mask & 7u)))
    __CPROVER_ensures(__CPROVER_return_value == (int)spec_popcount3(mask))
    __CPROVER_ensures(spec_reserved_ok(reserved_features));
#endif
#endif
