/* storage.h -- contracts for src/storage.c (harness includes "src/storage.c" or declarations first) */
#ifndef VERIF_C_STORAGE_H
#define VERIF_C_STORAGE_H

static inline bool spec_image_matches(polyseed_data s, const uint8_t* b) {
    bool r = true;
    for (unsigned i = 0; i < 32; ++i) r = r && (b[i] == spec_image(&s, i));
    return r;
}

void polyseed_data_store(const polyseed_data* data, polyseed_storage storage)
    __CPROVER_requires(__CPROVER_is_fresh(data, sizeof(*data)))
    __CPROVER_requires(__CPROVER_is_fresh(storage, 32))
    __CPROVER_requires(spec_shape_v(*data) && data->checksum < 2048)
    __CPROVER_assigns(__CPROVER_object_whole(storage))
    __CPROVER_ensures(spec_image_matches(*data, storage));

polyseed_status polyseed_data_load(const polyseed_storage storage, polyseed_data* data)
    __CPROVER_requires(__CPROVER_is_fresh(storage, 32))
    __CPROVER_requires(__CPROVER_is_fresh(data, sizeof(*data)))
    __CPROVER_assigns(__CPROVER_object_whole(data))
    __CPROVER_ensures(__CPROVER_return_value == POLYSEED_OK || __CPROVER_return_value == POLYSEED_ERR_FORMAT)
    __CPROVER_ensures((__CPROVER_return_value == POLYSEED_OK) == spec_wellformed(storage))
    __CPROVER_ensures(__CPROVER_return_value != POLYSEED_OK || (spec_shape_v(*data) && data->checksum < 2048))
    __CPROVER_ensures(__CPROVER_return_value != POLYSEED_OK || spec_image_matches(*data, storage));

#endif
