/* storage.h -- contracts for src/storage.c (harness includes "src/storage.c" first) */
#ifndef VERIF_C_STORAGE_H
#define VERIF_C_STORAGE_H

#define IMG_ENS(i) __CPROVER_ensures(storage[(i)] == spec_image(data, (i)))
#define IMG_ENS8(b) IMG_ENS(b) IMG_ENS(b+1) IMG_ENS(b+2) IMG_ENS(b+3) IMG_ENS(b+4) IMG_ENS(b+5) IMG_ENS(b+6) IMG_ENS(b+7)

void polyseed_data_store(const polyseed_data* data, polyseed_storage storage)
    __CPROVER_requires(__CPROVER_is_fresh(data, sizeof(*data)))
    __CPROVER_requires(__CPROVER_is_fresh(storage, 32))
    __CPROVER_requires(spec_shape(data) && data->checksum < 2048)
    __CPROVER_assigns(__CPROVER_object_whole(storage))
    IMG_ENS8(0) IMG_ENS8(8) IMG_ENS8(16) IMG_ENS8(24);

polyseed_status polyseed_data_load(const polyseed_storage storage, polyseed_data* data)
    __CPROVER_requires(__CPROVER_is_fresh(storage, 32))
    __CPROVER_requires(__CPROVER_is_fresh(data, sizeof(*data)))
    __CPROVER_assigns(__CPROVER_object_whole(data))
    __CPROVER_ensures(__CPROVER_return_value == POLYSEED_OK || __CPROVER_return_value == POLYSEED_ERR_FORMAT)
    __CPROVER_ensures((__CPROVER_return_value == POLYSEED_OK) == spec_wellformed(storage))
    __CPROVER_ensures(__CPROVER_return_value != POLYSEED_OK || (spec_shape(data) && data->checksum < 2048))
#define LD_ENS(i) __CPROVER_ensures(__CPROVER_return_value != POLYSEED_OK || storage[(i)] == spec_image(data, (i)))
#define LD_ENS8(b) LD_ENS(b) LD_ENS(b+1) LD_ENS(b+2) LD_ENS(b+3) LD_ENS(b+4) LD_ENS(b+5) LD_ENS(b+6) LD_ENS(b+7)
    LD_ENS8(0) LD_ENS8(8) LD_ENS8(16) LD_ENS8(24);

#endif
