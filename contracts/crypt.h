/* crypt.h -- the postcondition of polyseed_crypt as a predicate over (old seed, new seed, 32-byte mask);
 * asserted on the real function in U.api.crypt, assumed in the lemmas L.crypt.* */
#ifndef VERIF_C_CRYPT_H
#define VERIF_C_CRYPT_H
static inline bool spec_eq_bytes32x(const uint8_t* a, const uint8_t* b) { bool r = true; for (int i = 0; i < 32; ++i) r = r && (a[i] == b[i]); return r; }
static inline bool spec_crypt_post(polyseed_data o, polyseed_data n, const uint8_t* mask) {
    bool r = true;
    for (int i = 0; i < 18; ++i) r = r && (n.secret[i] == (uint8_t)(o.secret[i] ^ mask[i]));
    r = r && (n.secret[18] == (uint8_t)((o.secret[18] ^ mask[18]) & 0x3f));   /* top two bits of the 19th byte dropped */
    for (int i = 19; i < 32; ++i) r = r && (n.secret[i] == o.secret[i]);
    r = r && (n.features == (o.features ^ 16u));      /* encrypted flag toggled, user bits unchanged */
    r = r && (n.birthday == o.birthday);
    r = r && (n.checksum == spec_check(&n));          /* check value recomputed */
    return r;
}
#endif
