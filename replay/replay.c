/* replay.c -- native replay of verifier counterexamples against the REAL code.
 *
 * Built on every use from the current /repo sources (this file #includes the real .c files so that
 * static functions can be called) with gcc -fsanitize=address,undefined.  Each sub-command takes the
 * concrete inputs of a counterexample, runs the real function and evaluates the same postcondition
 * natively (contracts/spec.h).  Exit 1 + "REPRODUCED: ..." if the real code violates the postcondition
 * on that input, exit 0 + "NOT-REPRODUCED" otherwise, exit 3 on usage errors.
 * With -DREPLAY_API_ONLY only the commands that go through the public API are compiled (used when a change to
 * the signature of an internal function keeps the full driver from building).
 */
#define _GNU_SOURCE
#include <stdio.h>
#include <stdlib.h>
#include <string.h>
#include <stdint.h>
#include <stdbool.h>

#include <time.h>
/* scripted libc clock (sub-command stdlib_time): this definition takes precedence over libc's time() */
static long long d_libc_time; static unsigned d_libc_time_calls;
time_t time(time_t* p) { d_libc_time_calls++; if (p) *p = (time_t)d_libc_time; return (time_t)d_libc_time; }

#include "src/gf.c"
#include "src/storage.c"
#include "src/features.c"
#include "src/dependency.c"
#include "src/polyseed.c"
#include "src/lang.c"
#include "contracts/spec.h"
/* native copy of the inverse-layout predicate of contracts/gf.h (that header carries CBMC contract clauses) */
static inline bool spec_unpack_matches(gf_poly p, polyseed_data d) {
    unsigned c[16];
    for (int i = 0; i < 16; ++i) c[i] = (unsigned)p.coeff[i];
    bool r = (d.checksum == p.coeff[0]);
    unsigned e = spec_unpack_extra(c);
    r = r && d.birthday == (e & 1023u) && d.features == (e >> 10);
    for (unsigned j = 0; j < 32u; ++j) r = r && (d.secret[j] == spec_unpack_secret_byte(c, j));
    return r;
}
#include "contracts/decode.h"

static int fails = 0;
#define CHECK(c, msg) do { if (!(c)) { printf("REPRODUCED: %s\n", msg); fails++; } } while (0)

static int hexval(int c) { return c <= '9' ? c - '0' : (c | 32) - 'a' + 10; }
static size_t unhex(const char* s, uint8_t* out, size_t max) {
    size_t n = 0;
    while (s[0] && s[1] && n < max) { out[n++] = (uint8_t)(hexval(s[0]) << 4 | hexval(s[1])); s += 2; }
    return n;
}
static unsigned long long num(const char* s) { return strtoull(s, NULL, 0); }

/* ---- scripted dependencies ------------------------------------------------------------------- */
static uint8_t d_rand[32]; static unsigned d_rand_calls; static size_t d_rand_n; static void* d_rand_ptr;
static uint64_t d_time; static unsigned d_time_calls;
static int d_alloc_fail; static unsigned d_alloc_calls, d_free_calls, d_live; static void* d_block; static int d_free_zero = 1; static int d_foreign_free;
static uint8_t d_mask[32];
static unsigned d_kdf_calls; static uint8_t d_kdf_pw[600], d_kdf_salt[64]; static size_t d_kdf_pwlen, d_kdf_saltlen, d_kdf_keylen; static uint64_t d_kdf_iter; static uint8_t* d_kdf_key;
static unsigned d_mz_calls;
static void r_rand(void* p, size_t n) { d_rand_calls++; d_rand_n = n; d_rand_ptr = p; memcpy(p, d_rand, n < 32 ? n : 32); }
static void r_kdf(const uint8_t* pw, size_t pwlen, const uint8_t* salt, size_t saltlen, uint64_t it, uint8_t* key, size_t keylen) {
    d_kdf_calls++; d_kdf_pwlen = pwlen; d_kdf_saltlen = saltlen; d_kdf_iter = it; d_kdf_key = key; d_kdf_keylen = keylen;
    memcpy(d_kdf_pw, pw, pwlen < 600 ? pwlen : 600); memcpy(d_kdf_salt, salt, saltlen < 64 ? saltlen : 64);
    for (size_t i = 0; i < keylen; ++i) key[i] = d_mask[i % 32];
}
static void r_memzero(void* const p, const size_t n) { d_mz_calls++; memset(p, 0, n); }
static unsigned d_nfkd_calls; static const char* d_nfkd_arg;
static size_t r_copy(const char* s, polyseed_str out) { size_t n = strlen(s); if (n > POLYSEED_STR_SIZE - 1) n = POLYSEED_STR_SIZE - 1; memcpy(out, s, n); out[n] = 0; return n; }
/* NFKD for strings made of table words and separators: the words are stored decomposed (closed fact T.unicode), the only
   character that changes is the ideographic space U+3000 -> ASCII space */
static size_t r_nfkd(const char* s, polyseed_str out) {
    d_nfkd_calls++; d_nfkd_arg = s;
    size_t n = 0;
    while (*s && n < POLYSEED_STR_SIZE - 1) {
        if ((unsigned char)s[0] == 0xE3 && (unsigned char)s[1] == 0x80 && (unsigned char)s[2] == 0x80) { out[n++] = ' '; s += 3; }
        else out[n++] = *s++;
    }
    out[n] = 0;
    return n;
}
static uint64_t r_time(void) { d_time_calls++; return d_time; }
static void* r_alloc(size_t n) { d_alloc_calls++; if (d_alloc_fail) return NULL; void* p = malloc(n); memset(p, 0xA5, n); d_block = p; d_live++; return p; }
static void r_free(void* p) {
    d_free_calls++;
    if (p != d_block || d_live != 1) { d_foreign_free = 1; return; }
    for (size_t i = 0; i < sizeof(polyseed_data); ++i) if (((uint8_t*)p)[i]) d_free_zero = 0;
    d_live--; free(p);
}
static void install(void) {
    polyseed_deps.randbytes = r_rand; polyseed_deps.pbkdf2_sha256 = r_kdf; polyseed_deps.memzero = r_memzero;
    polyseed_deps.u8_nfc = r_copy; polyseed_deps.u8_nfkd = r_nfkd; polyseed_deps.time = r_time;
    polyseed_deps.alloc = r_alloc; polyseed_deps.free = r_free;
}
static void seed_from_hex(const char* h, polyseed_data* s) {
    /* 4 bytes birthday LE, 4 bytes features LE, 32 bytes secret, 8 bytes checksum LE */
    uint8_t b[48] = {0}; unhex(h, b, 48);
    s->birthday = b[0] | b[1] << 8 | b[2] << 16 | (unsigned)b[3] << 24;
    s->features = b[4] | b[5] << 8 | b[6] << 16 | (unsigned)b[7] << 24;
    memcpy(s->secret, b + 8, 32);
    s->checksum = 0; for (int i = 7; i >= 0; --i) s->checksum = s->checksum << 8 | b[40 + i];
}

int main(int argc, char** argv) {
    if (argc < 2) return 3;
    const char* cmd = argv[1];
    install();
    if (0) {
#ifndef REPLAY_API_ONLY
    } else if (!strcmp(cmd, "mul2") && argc == 3) {
        unsigned x = num(argv[2]) & 2047;
        CHECK(gf_elem_mul2(x) == spec_mul2(x), "gf_elem_mul2(x) != multiplication by x in GF(2^11)");
    } else if ((!strcmp(cmd, "eval") || !strcmp(cmd, "check") || !strcmp(cmd, "encode_poly")) && argc == 18) {
        gf_poly p; unsigned c[16];
        for (int i = 0; i < 16; ++i) { c[i] = num(argv[2 + i]) & 2047; p.coeff[i] = c[i]; }
        if (!strcmp(cmd, "eval")) CHECK(gf_poly_eval(&p) == spec_eval16(c), "gf_poly_eval != Horner specification");
        else if (!strcmp(cmd, "check")) CHECK(gf_poly_check(&p) == (spec_eval16(c) == 0), "gf_poly_check disagrees with the specification");
        else { unsigned c0 = c[0]; c[0] = 0; gf_poly_encode(&p); CHECK(p.coeff[0] == (c0 ^ spec_eval16(c)), "gf_poly_encode stores a wrong check value"); }
    } else if (!strcmp(cmd, "pack") && argc == 3) {
        polyseed_data s; seed_from_hex(argv[2], &s); gf_poly p; memset(&p, 0, sizeof p);
        polyseed_data_to_poly(&s, &p);
        for (unsigned i = 0; i < 15; ++i) CHECK(p.coeff[1 + i] == spec_word(&s, i), "polyseed_data_to_poly deviates from the published layout");
    } else if (!strcmp(cmd, "unpack") && argc == 18) {
        gf_poly p; unsigned c[16]; for (int i = 0; i < 16; ++i) { c[i] = num(argv[2 + i]) & 2047; p.coeff[i] = c[i]; }
        polyseed_data d; memset(&d, 0xA5, sizeof d);
        polyseed_poly_to_data(&p, &d);
        CHECK(d.checksum == c[0] && d.birthday == (spec_unpack_extra(c) & 1023) && d.features == (spec_unpack_extra(c) >> 10), "polyseed_poly_to_data: wrong scalar fields");
        for (unsigned j = 0; j < 32; ++j) CHECK(d.secret[j] == spec_unpack_secret_byte(c, j), "polyseed_poly_to_data: wrong secret byte (or padding not cleared)");
    } else if (!strcmp(cmd, "store") && argc == 3) {
        polyseed_data s; seed_from_hex(argv[2], &s); polyseed_storage st;
        polyseed_data_store(&s, st);
        for (unsigned i = 0; i < 32; ++i) CHECK(st[i] == spec_image(&s, i), "polyseed_data_store: byte differs from the specified image");
    } else if (!strcmp(cmd, "data_load") && argc == 3) {
        polyseed_storage st; unhex(argv[2], st, 32); polyseed_data d; memset(&d, 0xA5, sizeof d);
        polyseed_status r = polyseed_data_load(st, &d);
        CHECK((r == POLYSEED_OK) == spec_wellformed(st), "polyseed_data_load: acceptance differs from the well-formedness rule");
        CHECK(r == POLYSEED_OK || r == POLYSEED_ERR_FORMAT, "polyseed_data_load: undocumented status");
        if (r == POLYSEED_OK) { CHECK(spec_shape(&d), "polyseed_data_load: loaded seed is not shape-valid (padding/ranges)");
            for (unsigned i = 0; i < 32; ++i) CHECK(st[i] == spec_image(&d, i), "polyseed_data_load: image of the loaded seed differs from the buffer"); }
    } else if (!strcmp(cmd, "bday") && argc == 3) {
        uint64_t t = num(argv[2]);
        CHECK(spec_bday_ok(t, birthday_encode(t)), "birthday_encode violates the birthday specification");
    } else if (!strcmp(cmd, "stdlib_time") && argc == 3) {
        /* the library's own fallback clock (optional `time` entry NULL): create a seed while libc time() returns t */
        d_libc_time = strtoll(argv[2], NULL, 0);
        polyseed_deps.time = &stdlib_time;   /* what polyseed_inject installs for a NULL entry (unit U.dep.inject) */
        polyseed_data* sd = NULL;
        polyseed_status st = polyseed_create(0, &sd);
        CHECK(st == POLYSEED_OK && sd != NULL, "create failed");
        if (sd) {
            uint64_t b = polyseed_get_birthday(sd);
            printf("libc time() = %lld -> birthday %llu (epoch %llu)\n", d_libc_time, (unsigned long long)b, (unsigned long long)SPEC_EPOCH);
            CHECK(d_libc_time_calls == 1, "libc time() not called exactly once");
            if (d_libc_time < (long long)SPEC_EPOCH) CHECK(b == SPEC_EPOCH, "a clock value before the epoch (or a negative / error value) does not report the epoch birthday");
            else CHECK(b <= (uint64_t)d_libc_time, "birthday later than the clock value");
            polyseed_free(sd);
        }
    } else if (!strcmp(cmd, "bday_decode") && argc == 3) {
        unsigned b = num(argv[2]) & 1023;
        CHECK(birthday_decode(b) == SPEC_EPOCH + (uint64_t)b * SPEC_STEP, "birthday_decode != epoch + k*step");
    } else if (!strcmp(cmd, "enable") && argc == 4) {
        reserved_features = num(argv[2]); unsigned m = num(argv[3]);
        int r = polyseed_enable_features(m);
        CHECK(reserved_features == (15u ^ (m & 7u)) && r == (int)spec_popcount3(m), "polyseed_enable_features: mask or return value wrong (most recent call must win)");
#endif
    } else if (!strcmp(cmd, "keygen") && argc == 5) {
        polyseed_data s; seed_from_hex(argv[2], &s); unsigned coin = num(argv[3]); size_t ks = num(argv[4]); if (ks > 1024) ks = 1024;
        uint8_t* key = malloc(ks ? ks : 1);
        polyseed_keygen(&s, coin, ks, key);
        CHECK(d_kdf_calls == 1 && d_kdf_pwlen == 32 && d_kdf_saltlen == 32 && d_kdf_iter == 10000 && d_kdf_key == key && d_kdf_keylen == ks, "keygen: KDF call count/lengths/iterations/buffer wrong");
        CHECK(!memcmp(d_kdf_pw, s.secret, 32), "keygen: password is not the 32-byte secret buffer");
        for (unsigned i = 0; i < 32; ++i) CHECK(d_kdf_salt[i] == spec_kdf_salt(s.birthday, s.features, coin, i), "keygen: salt byte differs from the specification");
        for (size_t i = 0; i < ks; ++i) CHECK(key[i] == d_mask[i % 32], "keygen: key bytes modified after the KDF");
        free(key);
    } else if (!strcmp(cmd, "create") && argc == 7) {
        unsigned f = num(argv[2]); unhex(argv[3], d_rand, 32); d_time = num(argv[4]); d_alloc_fail = num(argv[5]); reserved_features = num(argv[6]);
        polyseed_data* out = NULL; polyseed_status r = polyseed_create(f, &out);
        bool unsupported = !spec_supported(f & 7u, reserved_features);
        CHECK((r == POLYSEED_ERR_UNSUPPORTED) == unsupported, "create: refusal differs from (features & 7) & reserved != 0");
        if (!unsupported) CHECK((r == POLYSEED_ERR_MEMORY) == (d_alloc_fail != 0), "create: memory status");
        if (r == POLYSEED_OK) {
            CHECK(d_rand_calls == 1 && d_rand_n == 19 && d_rand_ptr == out->secret, "create: random source not called exactly once for 19 bytes into the secret");
            CHECK(d_time_calls == 1 && spec_bday_ok(d_time, out->birthday), "create: birthday not taken from exactly one call of the injected clock");
            CHECK(out->features == (f & 7u), "create: stored features differ from the requested three low bits");
            for (int i = 0; i < 18; ++i) CHECK(out->secret[i] == d_rand[i], "create: secret differs from the random bytes");
            CHECK(out->secret[18] == (d_rand[18] & 0x3f), "create: top two bits of byte 18 not dropped");
            CHECK(spec_canonical(out), "create: seed not canonical");
            polyseed_free(out);
        } else CHECK(d_live == 0 && out == NULL, "create: failure leaves a block or writes *seed_out");
    } else if (!strcmp(cmd, "load") && argc == 5) {
        polyseed_storage st; unhex(argv[2], st, 32); d_alloc_fail = num(argv[3]); reserved_features = num(argv[4]);
        polyseed_data* out = NULL; polyseed_status r = polyseed_load(st, &out);
        polyseed_status e;
        unsigned feat = ((unsigned)st[9] << 8 | st[8]) >> 10, bd = ((unsigned)st[9] << 8 | st[8]) & 1023, ck = ((unsigned)st[31] << 8 | st[30]) & 2047;
        if (d_alloc_fail) e = POLYSEED_ERR_MEMORY; else if (!spec_wellformed(st)) e = POLYSEED_ERR_FORMAT;
        else if (ck != spec_check_raw(st + 10, bd, feat)) e = POLYSEED_ERR_CHECKSUM;
        else if (!spec_supported(feat, reserved_features)) e = POLYSEED_ERR_UNSUPPORTED; else e = POLYSEED_OK;
        if (r != e) { printf("REPRODUCED: polyseed_load returned %d, the precedence memory/format/checksum/unsupported gives %d\n", r, e); fails++; }
        if (r == POLYSEED_OK) { CHECK(spec_canonical(out), "load: seed not canonical"); for (unsigned i = 0; i < 32; ++i) CHECK(st[i] == spec_image(out, i), "load: image differs from the buffer"); polyseed_free(out); }
        else { CHECK(d_live == 0 && out == NULL, "load: failure leaves a block allocated or writes *seed_out"); CHECK(!d_foreign_free, "load: foreign or double free");
               CHECK(d_alloc_fail || (d_free_calls == 1 && d_free_zero), "load: the block is not wiped and freed exactly once on failure"); }
    } else if (!strcmp(cmd, "crypt") && argc == 4) {
        polyseed_data s, o; seed_from_hex(argv[2], &s); o = s; unhex(argv[3], d_mask, 32);
        polyseed_crypt(&s, "password");
        for (int i = 0; i < 18; ++i) CHECK(s.secret[i] == (uint8_t)(o.secret[i] ^ d_mask[i]), "crypt: secret byte not XORed with the mask");
        CHECK(s.secret[18] == (uint8_t)((o.secret[18] ^ d_mask[18]) & 0x3f), "crypt: top two bits of byte 18 not dropped");
        CHECK(s.features == (o.features ^ 16u) && s.birthday == o.birthday, "crypt: flag/birthday");
        CHECK(s.checksum == spec_check(&s), "crypt: check value not recomputed for the new data");
        CHECK(d_kdf_calls == 1 && d_kdf_pwlen == 8 && !memcmp(d_kdf_pw, "password", 8) && d_kdf_saltlen == 16 && d_kdf_iter == 10000 && d_kdf_keylen == 32, "crypt: KDF arguments");
    } else if (!strcmp(cmd, "decode") && argc == 24) {
        /* decode <explicit 0|1> <ntok> <pd_status> <idx0..idx15> <coin> <alloc_fail> <reserved mask>
           the phrase-decoder outcome of the counterexample is realised with English words (index i -> words[i]);
           a language error is realised with a token that is no word; ntok tokens are supplied */
        int explicit_ = num(argv[2]); int ntok = num(argv[3]); int pd = num(argv[4]);
        unsigned idx[16]; for (int i = 0; i < 16; ++i) idx[i] = num(argv[5 + i]) & 2047;
        unsigned coin = num(argv[21]) & 2047; d_alloc_fail = num(argv[22]); reserved_features = num(argv[23]);
        if ((pd != POLYSEED_OK && pd != POLYSEED_ERR_LANG) || ntok < 0 || ntok > 17) { printf("not realisable natively\n"); return 3; }
        const polyseed_lang* en = polyseed_get_lang(0);
        char phrase[1024]; phrase[0] = 0;
        for (int i = 0; i < ntok; ++i) {
            if (i) strcat(phrase, " ");
            strcat(phrase, (pd == POLYSEED_OK || i != 3) ? en->words[idx[i % 16]] : "zzzzqqqq");
        }
        if (ntok != 16) pd = POLYSEED_OK;   /* the search is not consulted */
        polyseed_data* out = NULL; const polyseed_lang* lo = NULL;
        polyseed_status st = explicit_ ? polyseed_decode_explicit(phrase, coin, en, &out) : polyseed_decode(phrase, coin, &lo, &out);
        if (!explicit_ && st == POLYSEED_ERR_MULT_LANG) { printf("not realisable natively: the English realisation of these indices is also a phrase of another list\n"); return 3; }
        polyseed_status want = spec_decode_status(ntok, (polyseed_status)pd, idx, coin, d_alloc_fail != 0, reserved_features);
        printf("phrase: %s\nstatus %d, specification %d\n", phrase, st, want);
        CHECK(st == want, "decode: status differs from the documented precedence (NUM_WORDS, LANG, CHECKSUM, MEMORY, UNSUPPORTED, OK)");
        unsigned c[16]; for (int i = 0; i < 16; ++i) c[i] = idx[i]; c[1] ^= coin;
        int reached_alloc = (ntok == 16 && pd == POLYSEED_OK && spec_eval16(c) == 0);
        CHECK(d_alloc_calls == (unsigned)reached_alloc, "decode: allocator not called exactly when the checksum passed");
        if (st == POLYSEED_OK) {
            CHECK(out != NULL && d_live == 1, "decode: OK without a live seed");
            if (out) { CHECK(spec_decode_seed(idx, coin, *out), "decode: seed fields are not the inverse layout of the words"); CHECK(spec_canonical(out), "decode: seed not canonical"); }
            if (!explicit_) CHECK(lo == en, "decode: wrong language reported");
        } else {
            CHECK(out == NULL && d_live == 0, "decode: failure leaves a block allocated or writes *seed_out");
            CHECK(!d_foreign_free && d_free_calls == (unsigned)(reached_alloc && !d_alloc_fail) && d_free_zero, "decode: block not wiped and freed exactly once on failure");
        }
    } else if (!strcmp(cmd, "encode") && argc == 5) {
        /* encode <seedhex> <coin> <lang index>: real polyseed_encode against the published layout */
        polyseed_data s; seed_from_hex(argv[2], &s); unsigned coin = num(argv[3]) & 2047; int li = num(argv[4]);
        if (li < 0 || li >= polyseed_get_num_langs() || !spec_shape(&s) || s.checksum >= 2048) return 3;
        const polyseed_lang* l = polyseed_get_lang(li);
        static char expect[4096]; expect[0] = 0;
        for (unsigned i = 0; i < 16; ++i) {
            if (i) strcat(expect, l->separator);
            strcat(expect, l->words[spec_coeff_raw(s.secret, s.birthday, s.features, (unsigned)s.checksum, coin, i) & 2047]);
        }
        polyseed_str out; polyseed_data snap = s;
        size_t n = polyseed_encode(&s, l, coin, out);
        printf("phrase: %s\n", out);
        CHECK(!strcmp(out, expect), "encode: phrase differs from words[c0] sep ... words[c15] of the published layout");
        CHECK(n == strlen(out), "encode: returned length is not the length of the output");
        CHECK(!memcmp(&snap, &s, sizeof s), "encode: seed modified");
#ifndef REPLAY_API_ONLY
    } else if (!strcmp(cmd, "nfkd_lazy") && argc == 3) {
        /* nfkd_lazy <hex of the NUL-terminated input> */
        static char in[2048]; size_t n = unhex(argv[2], (uint8_t*)in, sizeof in - 1); in[n] = 0;
        polyseed_str norm; memset(norm, 0x5A, sizeof norm);
        unsigned before = d_nfkd_calls;
        size_t r = utf8_nfkd_lazy(in, norm);
        size_t len = strlen(in); int ascii = 1;
        for (size_t i = 0; i < len && i < POLYSEED_STR_SIZE - 1; ++i) if ((unsigned char)in[i] >= 0x80) ascii = 0;
        if (ascii) {
            size_t m = len < POLYSEED_STR_SIZE - 1 ? len : POLYSEED_STR_SIZE - 1;
            CHECK(d_nfkd_calls == before, "nfkd_lazy: the normaliser is called for an ASCII string");
            CHECK(r == m && !memcmp(norm, in, m) && norm[m] == 0, "nfkd_lazy: ASCII string not copied verbatim");
        } else {
            CHECK(d_nfkd_calls == before + 1 && d_nfkd_arg == in, "nfkd_lazy: the normaliser is not called exactly once on the whole input when a non-ASCII byte is present");
            CHECK(r == strlen(norm), "nfkd_lazy: result is not the normaliser's length");
        }
    } else if (!strcmp(cmd, "split") && argc == 3) {
        /* split <hex of the NUL-terminated polyseed_str contents>: real str_split against the reference tokeniser */
        polyseed_str buf; memset(buf, 0, sizeof buf); size_t n = unhex(argv[2], (uint8_t*)buf, sizeof buf - 1); buf[n] = 0;
        polyseed_str orig; memcpy(orig, buf, sizeof buf);
        polyseed_phrase words; int r = str_split(buf, words);
        /* reference tokeniser: the fields between single spaces (an empty field is a token); one trailing space is
           ignored; at most 16 tokens are stored and any further text is reported as a 17th */
        int cnt = 0; size_t starts[18]; size_t L = strlen(orig);
        if (L > 0) {
            size_t st = 0;
            for (size_t i = 0; i <= L; ++i) {
                if (i == L || orig[i] == ' ') {
                    if (!(i == L && st == L)) { if (cnt < 17) starts[cnt] = st; if (cnt < 17) cnt++; }
                    st = i + 1;
                }
            }
        }
        printf("str_split returned %d, reference %d\n", r, cnt);
        CHECK(r == cnt, "str_split: token count differs from the reference tokeniser");
        for (int i = 0; i < r && i < 16 && i < cnt; ++i) CHECK(words[i] == buf + starts[i], "str_split: token boundary differs from the reference tokeniser");
    } else if (!strcmp(cmd, "phrase_auto") && argc == 3) {
        /* phrase_auto <lang_out: 0 NULL, 1 non-NULL, 2 both>: the search-outcome matrix of a counterexample cannot be turned
           into strings in general, so a battery of real token lists is tried instead: for every language one word
           repeated 16 times (several indices), mixtures of two words, tokens shared by several lists (found by
           scanning the real tables) and a non-word.  For each, automatic detection must equal the function of the
           ten explicit decodings stated in the contract (exactly one -> OK with that language and those indices,
           two or more -> MULT_LANG, none -> LANG). */
        int mode = num(argv[2]); int nl = polyseed_get_num_langs(); long tried = 0;
        static const char* toks[4096]; int nt = 0;
        for (int li = 0; li < nl; ++li) { const polyseed_lang* l = polyseed_get_lang(li); int pick[] = {0, 1, 7, 300, 1024, 2046, 2047}; for (unsigned k = 0; k < sizeof pick / sizeof *pick; ++k) toks[nt++] = l->words[pick[k]]; }
        /* words that occur verbatim in two different lists */
        for (int a = 0; a < nl && nt < 3000; ++a) for (int b = a + 1; b < nl && nt < 3000; ++b) { int found = 0;
            for (int i = 0; i < POLYSEED_LANG_SIZE && found < 20; ++i) if (polyseed_lang_find_word(polyseed_get_lang(b), polyseed_get_lang(a)->words[i]) >= 0) { toks[nt++] = polyseed_get_lang(a)->words[i]; found++; } }
        toks[nt++] = "zzzzqqqq";
        for (int t1 = 0; t1 < nt; ++t1) for (int variant = 0; variant < 3; ++variant) {
            int t2 = variant == 0 ? t1 : (variant == 1 ? (t1 + 1) % nt : (t1 * 7 + 3) % nt);
            polyseed_phrase ph; for (int w = 0; w < 16; ++w) ph[w] = (w == 1 || w == 9) ? toks[t2] : toks[t1];
            int nmatch = 0, first = -1; uint_fast16_t ex[16], exf[16];
            for (int li = 0; li < nl; ++li) if (polyseed_phrase_decode_explicit(ph, polyseed_get_lang(li), ex) == POLYSEED_OK) { if (first < 0) { first = li; memcpy(exf, ex, sizeof ex); } nmatch++; }
            polyseed_status want = nmatch == 1 ? POLYSEED_OK : (nmatch == 0 ? POLYSEED_ERR_LANG : POLYSEED_ERR_MULT_LANG);
            for (int wl = 0; wl < 2; ++wl) { if (mode != 2 && mode != wl) continue;
                uint_fast16_t idx[16]; for (int w = 0; w < 16; ++w) idx[w] = 0xFFFF; const polyseed_lang* lo = NULL; tried++;
                polyseed_status st = polyseed_phrase_decode(ph, idx, wl ? &lo : NULL);
                int bad = st != want || (st == POLYSEED_OK && (memcmp(idx, exf, sizeof idx) != 0 || (wl && lo != polyseed_get_lang(first))));
                if (bad && fails < 3) { printf("REPRODUCED: automatic detection (lang_out %s) returns %d on the phrase [%s %s x...]; %d language(s) recognise all tokens, specification says %d%s\n",
                    wl ? "given" : "NULL", st, toks[t1], toks[t2], nmatch, want, st == POLYSEED_OK ? " / indices or language differ from explicit decoding" : ""); }
                if (bad) fails++;
            }
        }
        printf("%ld token lists tried\n", tried);
#endif
    } else if (!strcmp(cmd, "encode_all") && argc == 2) {
        /* closed obligation T.encode_words[lang] (engine encwords): for every language and every word index w, the real
           polyseed_encode of a seed whose 7th word is w (10 secret bits + one birthday bit chosen accordingly, the other
           words fixed) produces exactly words[c0] sep ... words[c15] of the published layout, returns its length, and
           leaves the seed unchanged; the real decoders map that phrase back to the identical seed; the longest phrase of
           the list round-trips too.  (NFC / NFKD are identity functions here: the table words are stored decomposed, so the
           phrase handed to the decoder is the decomposed one; composition across the dependency is the closed fact
           T.unicode.)  One JSON line per language. */
        int nl = polyseed_get_num_langs(); int allok = 1;
        for (int li = 0; li < nl; ++li) {
            const polyseed_lang* l = polyseed_get_lang(li);
            long bad = 0; char first[300] = "";
            for (unsigned w = 0; w < 2048; ++w) {
                polyseed_data s; memset(&s, 0, sizeof s);
                for (int i = 0; i < 19; ++i) s.secret[i] = (uint8_t)(0x35 * (i + 1) + li);
                s.secret[18] &= 0x3f;
                /* data word 5 (phrase word 7) = secret bits 50..59 followed by birthday bit 9 */
                unsigned hi = w >> 1;
                for (unsigned b = 0; b < 10; ++b) { unsigned k = 50 + b; unsigned bit = (hi >> (9 - b)) & 1u;
                    s.secret[k / 8] = (uint8_t)((s.secret[k / 8] & ~(0x80u >> (k % 8))) | (bit ? (0x80u >> (k % 8)) : 0)); }
                s.birthday = (w & 1u) << 9 | 0x55; s.features = 0;
                s.checksum = spec_check(&s);
                unsigned coin = (w * 7u) & 2047u;
                static char expect[4096]; expect[0] = 0; int has_w = 0;
                for (unsigned i = 0; i < 16; ++i) {
                    unsigned c = spec_coeff_raw(s.secret, s.birthday, s.features, (unsigned)s.checksum, coin, i) & 2047;
                    if (i == 6 && c == w) has_w = 1;
                    if (i) strcat(expect, l->separator);
                    strcat(expect, l->words[c]);
                }
                polyseed_str out; polyseed_data snap = s;
                size_t n = polyseed_encode(&s, l, coin, out);
                if (!has_w || strcmp(out, expect) || n != strlen(out) || memcmp(&snap, &s, sizeof s)) {
                    if (!bad) snprintf(first, sizeof first, "word index %u (%s): got a phrase of %zu bytes, expected %zu", w, l->words[w], strlen(out), strlen(expect));
                    bad++;
                    continue;
                }
                /* ... and the phrase decodes back to the identical seed (explicitly; automatically: same seed and language, or MULT_LANG) */
                polyseed_data* back = NULL; const polyseed_lang* lo = NULL;
                polyseed_status st = polyseed_decode_explicit(out, coin, l, &back);
                int okx = st == POLYSEED_OK && back && back->birthday == s.birthday && back->features == s.features && back->checksum == s.checksum && !memcmp(back->secret, s.secret, 32);
                if (back) polyseed_free(back);
                back = NULL;
                polyseed_status sa = polyseed_decode(out, coin, &lo, &back);
                int oka = (sa == POLYSEED_ERR_MULT_LANG && !back) || (sa == POLYSEED_OK && back && lo == l && back->checksum == s.checksum && !memcmp(back->secret, s.secret, 32) && back->birthday == s.birthday && back->features == s.features);
                if (back) polyseed_free(back);
                if (!okx || !oka) {
                    if (!bad) snprintf(first, sizeof first, "word index %u (%s): the encoded phrase decodes with status %d (explicit) / %d (automatic) or to a different seed", w, l->words[w], st, sa);
                    bad++;
                }
            }
            {   /* the longest phrase of the list round-trips as well: the longest word at every data position (word 3 needs an
                   even index: reserved feature bit), and the combination of the last data words - tried over the longest words,
                   or over all 2048 values of the last one - that also makes the check word long */
                unsigned wa = 0, we = 0; size_t la = 0, le = 0;
                for (unsigned i = 0; i < 2048; ++i) { size_t n_ = strlen(l->words[i]); if (n_ > la) { la = n_; wa = i; } if (!(i & 1) && n_ > le) { le = n_; we = i; } }
                unsigned M[64]; int nm = 0; for (unsigned i = 0; i < 2048 && nm < 64; ++i) if (strlen(l->words[i]) == la) M[nm++] = i;
                unsigned best[16]; size_t bestlen = 0; for (int i = 0; i < 16; ++i) best[i] = wa; best[2] = we;
                long combos = nm >= 2 ? (long)nm * nm * nm : 2048;
                for (long k = 0; k < combos; ++k) {
                    unsigned c[16]; for (int i = 0; i < 16; ++i) c[i] = wa; c[2] = we;
                    if (nm >= 2) { c[13] = M[k % nm]; c[14] = M[(k / nm) % nm]; c[15] = M[(k / nm / nm) % nm]; } else c[15] = (unsigned)k;
                    polyseed_data t; memset(&t, 0, sizeof t);
                    for (unsigned j = 0; j < 19; ++j) t.secret[j] = spec_unpack_secret_byte(c, j);
                    t.birthday = spec_unpack_extra(c) & 1023; t.features = spec_unpack_extra(c) >> 10;
                    unsigned c0 = spec_check(&t);
                    size_t tot = strlen(l->words[c0 & 2047]) + 15 * strlen(l->separator);
                    for (int i = 1; i < 16; ++i) tot += strlen(l->words[c[i]]);
                    if (tot > bestlen) { bestlen = tot; memcpy(best, c, sizeof c); }
                }
                polyseed_data s; memset(&s, 0, sizeof s);
                for (unsigned j = 0; j < 19; ++j) s.secret[j] = spec_unpack_secret_byte(best, j);
                s.birthday = spec_unpack_extra(best) & 1023; s.features = spec_unpack_extra(best) >> 10;
                s.checksum = spec_check(&s);
                unsigned coin = (spec_word(&s, 0) ^ best[1]) & 2047;   /* makes word 2 the chosen word as well */
                unsigned saved_reserved = reserved_features;
                reserved_features = 8;    /* all three user feature bits enabled, as polyseed_enable_features(7) leaves it: the
                                             longest words may have odd indices, which set user feature bits */
                if (spec_supported(s.features, reserved_features)) {
                    polyseed_str out; size_t n = polyseed_encode(&s, l, coin, out);
                    polyseed_data* back = NULL;
                    polyseed_status st = polyseed_decode_explicit(out, coin, l, &back);
                    int okx = n == strlen(out) && st == POLYSEED_OK && back && !memcmp(back->secret, s.secret, 32) && back->birthday == s.birthday && back->checksum == s.checksum;
                    if (back) polyseed_free(back);
                    if (!okx) { if (!bad) snprintf(first, sizeof first, "the longest phrase of the list (%zu bytes) does not round-trip: status %d", strlen(out), st); bad++; }
                }
                reserved_features = saved_reserved;
            }
            printf("{\"name\": \"T.encode_words[%s]\", \"status\": \"%s\", \"evaluated\": 2048, \"detail\": \"", l->name_en, bad ? "fail" : "pass");
            if (bad) { for (const char* p = first; *p; ++p) { if (*p == '"' || *p == '\\') putchar('\\'); putchar(*p); } printf(" (%ld of 2048 words)", bad); allok = 0; }
            else printf("every word of the list, placed as the 7th word by the real polyseed_encode, appears intact in words[c0] sep ... words[c15] (returned length = strlen) and the phrase decodes back to the identical seed, explicitly and automatically; so does the longest phrase of the list");
            printf("\"}\n");
        }
        if (!allok) fails++;
#ifndef REPLAY_API_ONLY
    } else if (!strcmp(cmd, "cmp") && argc == 5) {
        /* cmp <kind> <keyhex> <elmhex>: kind = str|prefix|str_noaccent|prefix_noaccent */
        char key[64] = {0}, elm[64] = {0}; unhex(argv[3], (uint8_t*)key, 63); unhex(argv[4], (uint8_t*)elm, 63);
        int acc = strstr(argv[2], "noaccent") != NULL, pre = !strncmp(argv[2], "prefix", 6);
        const char* pk = key; const char* pe = elm;
        int r = pre ? (acc ? compare_prefix_noaccent_wrap(&pk, &pe) : compare_prefix_wrap(&pk, &pe)) : (acc ? compare_str_noaccent_wrap(&pk, &pe) : compare_str_wrap(&pk, &pe));
        char a[64], b[64]; int na = 0, nb = 0;
        for (const char* p = key; *p; ++p) if (!(acc && (unsigned char)*p >= 0x80)) a[na++] = *p;
        for (const char* p = elm; *p; ++p) if (!(acc && (unsigned char)*p >= 0x80)) b[nb++] = *p;
        int accept = (na == nb && !memcmp(a, b, na)) || (pre && na >= 4 && na < nb && !memcmp(a, b, na));
        if ((r == 0) != accept) { printf("REPRODUCED: comparer returned %d, the acceptance rule says %s\n", r, accept ? "accept" : "reject"); fails++; }
    } else if (!strcmp(cmd, "int_battery") && argc == 4) {
        /* int_battery <n> <seed>: native REFUTATION SEARCH on the internal string functions (tokeniser, lazy NFKD, the four
           comparers) with pseudo-random strings over small alphabets, against the reference tokeniser / acceptance rule;
           used like api_battery when a contract unit of one of these functions is undecided.  A pass proves nothing. */
        unsigned long n_ = num(argv[2]); uint64_t x = num(argv[3]) * 6364136223846793005ULL + 1442695040888963407ULL;
        #define RNDI() (x = x * 6364136223846793005ULL + 1442695040888963407ULL, (unsigned)(x >> 33))
        for (unsigned long it = 0; it < n_ && fails < 3; ++it) {
            /* tokeniser */
            polyseed_str buf; memset(buf, 0, sizeof buf);
            unsigned len = RNDI() % 60; static const char al[] = "ab  ";
            for (unsigned i = 0; i < len; ++i) buf[i] = al[RNDI() % 4];
            polyseed_str orig; memcpy(orig, buf, sizeof buf);
            polyseed_phrase words; int r = str_split(buf, words);
            int cnt = 0; size_t starts[18]; size_t L = strlen(orig);
            if (L > 0) { size_t st = 0; for (size_t i = 0; i <= L; ++i) if (i == L || orig[i] == ' ') { if (!(i == L && st == L)) { if (cnt < 17) { starts[cnt] = st; cnt++; } } st = i + 1; } }
            int bad = r != cnt; for (int i = 0; !bad && i < r && i < 16; ++i) bad = words[i] != buf + starts[i];
            if (bad) { printf("REPRODUCED: str_split returns %d tokens (reference %d) or different boundaries on \"%s\"\n", r, cnt, orig); fails++; }
            /* lazy NFKD */
            static char in[700]; unsigned ln = RNDI() % 40; static const unsigned char ab[] = { 'a', 'z', ' ', 0xC3, 0xA9, 0xE3 };
            for (unsigned i = 0; i < ln; ++i) in[i] = (char)ab[(RNDI() % 16) < 13 ? RNDI() % 3 : 3 + RNDI() % 3];
            in[ln] = 0;
            polyseed_str norm; unsigned before = d_nfkd_calls; size_t rr = utf8_nfkd_lazy(in, norm);
            int ascii = 1; for (unsigned i = 0; i < ln; ++i) if ((unsigned char)in[i] >= 0x80) ascii = 0;
            if (ascii ? (d_nfkd_calls != before || rr != ln || memcmp(norm, in, ln + 1)) : (d_nfkd_calls != before + 1 || d_nfkd_arg != in)) {
                printf("REPRODUCED: utf8_nfkd_lazy: normaliser called %u time(s) for a %s string of %u bytes\n", d_nfkd_calls - before, ascii ? "pure ASCII" : "non-ASCII", ln); fails++; }
            /* lazy NFKD at the buffer boundary: pure-ASCII strings around POLYSEED_STR_SIZE are truncated to SIZE-1 bytes, never written past */
            if ((RNDI() & 7) == 0) {
                static struct { polyseed_str norm; unsigned char guard[16]; } g; unsigned lb = POLYSEED_STR_SIZE - 16 + RNDI() % 64;
                for (unsigned i = 0; i < lb; ++i) in[i] = (char)('a' + RNDI() % 26);
                in[lb] = 0; memset(&g, 0x5A, sizeof g);
                unsigned bf = d_nfkd_calls; size_t r2 = utf8_nfkd_lazy(in, g.norm); size_t want = lb < POLYSEED_STR_SIZE - 1 ? lb : POLYSEED_STR_SIZE - 1;
                int gbad = 0; for (unsigned i = 0; i < sizeof g.guard; ++i) if (g.guard[i] != 0x5A) gbad = 1;
                if (gbad || r2 != want || d_nfkd_calls != bf || memcmp(g.norm, in, want) || g.norm[want] != 0) {
                    printf("REPRODUCED: utf8_nfkd_lazy on a pure-ASCII string of %u bytes returns %zu (expected %zu)%s\n", lb, r2, want, gbad ? " and writes past the polyseed_str" : ""); fails++; }
            }
            /* comparers */
            char key[24] = {0}, elm[24] = {0}; static const unsigned char ac[] = { 'a', 'b', 'c', 0xCC, 0x81 };
            unsigned lk = RNDI() % 9, le = RNDI() % 9;
            for (unsigned i = 0; i < le; ++i) elm[i] = (char)ac[RNDI() % 5];
            if (RNDI() & 1) { for (unsigned i = 0; i < lk; ++i) key[i] = (char)ac[RNDI() % 5]; } else { memcpy(key, elm, lk < le ? lk : le); }
            for (int kind = 0; kind < 4; ++kind) {
                int acc = kind >= 2, pre = kind & 1; const char* pk = key; const char* pe = elm;
                int c = pre ? (acc ? compare_prefix_noaccent_wrap(&pk, &pe) : compare_prefix_wrap(&pk, &pe)) : (acc ? compare_str_noaccent_wrap(&pk, &pe) : compare_str_wrap(&pk, &pe));
                char a[24], b[24]; int na = 0, nb = 0;
                for (const char* p = key; *p; ++p) if (!(acc && (unsigned char)*p >= 0x80)) a[na++] = *p;
                for (const char* p = elm; *p; ++p) if (!(acc && (unsigned char)*p >= 0x80)) b[nb++] = *p;
                int accept = (na == nb && !memcmp(a, b, na)) || (pre && na >= 4 && na < nb && !memcmp(a, b, na));
                if ((c == 0) != accept) { printf("REPRODUCED: comparer %d returns %d, the acceptance rule says %s (key/elm lengths %u/%u)\n", kind, c, accept ? "accept" : "reject", lk, le); fails++; }
            }
        }
        printf("%lu random cases tried per function\n", n_);
#endif
    } else if (!strcmp(cmd, "api_battery") && argc == 4) {
        /* api_battery <n> <seed>: native REFUTATION SEARCH through the public API only, used when a contract unit of an API
           function is undecided (refactored beyond what its harness can follow) or its counterexample is not realisable: n
           pseudo-random canonical seeds (fixed generator) x language x coin x mask; for each one
             encode -> phrase equals the published layout; decode_explicit / decode -> the identical seed (or MULT_LANG);
             store -> the image specification; load -> the identical seed; keygen inputs equal for the seed and its decoded copy;
             crypt -> masked secret, flag toggled, check value recomputed; crypt twice -> the original seed.
           A failure is a concrete failing input on the real code; a pass proves nothing. */
        unsigned long n_ = num(argv[2]); uint64_t x = num(argv[3]) * 6364136223846793005ULL + 1442695040888963407ULL;
        #define RND() (x = x * 6364136223846793005ULL + 1442695040888963407ULL, (unsigned)(x >> 33))
        int nl = polyseed_get_num_langs();
        for (unsigned long it = 0; it < n_ && fails < 3; ++it) {
            polyseed_data s; memset(&s, 0, sizeof s);
            for (int i = 0; i < 19; ++i) s.secret[i] = (uint8_t)RND();
            s.secret[18] &= 0x3f;
            s.birthday = RND() & 1023; s.features = (RND() & 1) ? 16 : 0;
            s.checksum = spec_check(&s);
            unsigned coin = RND() & 2047; const polyseed_lang* l = polyseed_get_lang((int)(it % (unsigned)nl));
            char what[400]; snprintf(what, sizeof what, "seed(birthday=%u features=%u secret[0..3]=%02x%02x%02x%02x) coin=%u lang=%s", s.birthday, s.features, s.secret[0], s.secret[1], s.secret[2], s.secret[3], coin, l->name_en);
            #define BFAIL(msg) do { printf("REPRODUCED: %s -- %s\n", msg, what); fails++; } while (0)
            /* encode */
            static char expect[4096]; expect[0] = 0;
            for (unsigned i = 0; i < 16; ++i) { if (i) strcat(expect, l->separator); strcat(expect, l->words[spec_coeff_raw(s.secret, s.birthday, s.features, (unsigned)s.checksum, coin, i) & 2047]); }
            polyseed_str out; polyseed_data snap = s;
            size_t n = polyseed_encode(&s, l, coin, out);
            if (strcmp(out, expect) || n != strlen(out)) { BFAIL("encode: phrase or returned length differs from the published layout"); continue; }
            if (memcmp(&snap, &s, sizeof s)) { BFAIL("encode modified the seed"); continue; }
            /* decode */
            polyseed_data* back = NULL; const polyseed_lang* lo = NULL;
            polyseed_status st = polyseed_decode_explicit(out, coin, l, &back);
            if (!(st == POLYSEED_OK && back && back->birthday == s.birthday && back->features == s.features && back->checksum == s.checksum && !memcmp(back->secret, s.secret, 32))) { BFAIL("decode_explicit(encode(seed)) is not the seed"); if (back) polyseed_free(back); continue; }
            /* keygen inputs */
            uint8_t k1[32], k2[32]; uint8_t pw1[64], salt1[64]; size_t pl1, sl1;
            polyseed_keygen(&s, coin, sizeof k1, k1); memcpy(pw1, d_kdf_pw, 64); memcpy(salt1, d_kdf_salt, 64); pl1 = d_kdf_pwlen; sl1 = d_kdf_saltlen;
            polyseed_keygen(back, coin, sizeof k2, k2);
            if (pl1 != 32 || sl1 != 32 || d_kdf_pwlen != 32 || d_kdf_saltlen != 32 || memcmp(pw1, d_kdf_pw, 32) || memcmp(salt1, d_kdf_salt, 32) || d_kdf_iter != 10000) BFAIL("key-derivation inputs differ between the seed and its decoded copy");
            for (int i = 0; i < 32; ++i) if (d_kdf_salt[i] != spec_kdf_salt(s.birthday, s.features, coin, (unsigned)i)) { BFAIL("key-derivation salt differs from the published layout"); break; }
            polyseed_free(back); back = NULL;
            st = polyseed_decode(out, coin, &lo, &back);
            if (!((st == POLYSEED_ERR_MULT_LANG && !back) || (st == POLYSEED_OK && back && lo == l && back->checksum == s.checksum && !memcmp(back->secret, s.secret, 32)))) BFAIL("decode(encode(seed)) is neither the seed with its language nor MULT_LANG");
            if (back) polyseed_free(back);
            /* store / load */
            polyseed_storage buf; polyseed_store(&s, buf);
            for (int i = 0; i < 32; ++i) if (buf[i] != spec_image(&s, i)) { BFAIL("store: byte differs from the image specification"); break; }
            back = NULL; st = polyseed_load(buf, &back);
            if (!(st == POLYSEED_OK && back && back->birthday == s.birthday && back->features == s.features && back->checksum == s.checksum && !memcmp(back->secret, s.secret, 32))) BFAIL("load(store(seed)) is not the seed");
            if (back) polyseed_free(back);
            /* crypt */
            for (int i = 0; i < 32; ++i) d_mask[i] = (uint8_t)RND();
            static const char* const pws[] = { "password", "ol\xc3\xa9", "pw\n", "\xe3\x81\x82\xe3\x81\x84", "", "tab\t", "\xcc\x81" };
            const char* pw = pws[it % (sizeof pws / sizeof *pws)];
            polyseed_data c = s; polyseed_crypt(&c, pw);
            if (d_kdf_pwlen != strlen(pw) || memcmp(d_kdf_pw, pw, strlen(pw)) || d_kdf_saltlen != 16 || d_kdf_iter != 10000 || d_kdf_keylen != 32)
                BFAIL("crypt: the key-derivation password is not the normalised password byte for byte without terminator (or salt length / iterations / key length differ)");
            int okc = c.features == (s.features ^ 16u) && c.birthday == s.birthday && c.checksum == spec_check(&c) && c.secret[18] == (uint8_t)((s.secret[18] ^ d_mask[18]) & 0x3f);
            for (int i = 0; i < 18; ++i) okc = okc && c.secret[i] == (uint8_t)(s.secret[i] ^ d_mask[i]);
            for (int i = 19; i < 32; ++i) okc = okc && c.secret[i] == 0;
            if (!okc) { BFAIL("crypt: result is not the masked seed with the flag toggled and the check value recomputed"); continue; }
            polyseed_crypt(&c, pw);
            if (memcmp(&c, &s, sizeof s)) BFAIL("crypt twice with the same mask does not restore the seed");
            if (d_live != 0 || d_foreign_free) { BFAIL("allocator ledger: block leaked or foreign/double free"); d_live = 0; d_foreign_free = 0; }
            /* failure paths: wrong coin, reserved feature bits, failing allocator -- status and allocator ledger */
            back = NULL; st = polyseed_decode_explicit(out, coin ^ (1u + RND() % 2047u), l, &back);
            if (st != POLYSEED_ERR_CHECKSUM || back || d_live) { BFAIL("a phrase decoded for another coin is not rejected with the checksum status"); if (back) polyseed_free(back); d_live = 0; }
            polyseed_data u = s; u.features = 1u + RND() % 7u; u.checksum = spec_check(&u);
            if (!spec_supported(u.features, reserved_features)) {
                polyseed_str uo; polyseed_encode(&u, l, coin, uo);
                unsigned f0 = d_free_calls; d_free_zero = 1; back = NULL;
                st = polyseed_decode_explicit(uo, coin, l, &back);
                if (st != POLYSEED_ERR_UNSUPPORTED || back || d_live || d_foreign_free || d_free_calls != f0 + 1 || !d_free_zero) { BFAIL("decode of a seed with a reserved feature bit: not UNSUPPORTED, or the block is not wiped and freed exactly once"); d_live = 0; d_foreign_free = 0; }
                polyseed_storage ub; polyseed_store(&u, ub); f0 = d_free_calls; d_free_zero = 1; back = NULL;
                st = polyseed_load(ub, &back);
                if (st != POLYSEED_ERR_UNSUPPORTED || back || d_live || d_foreign_free || d_free_calls != f0 + 1 || !d_free_zero) { BFAIL("load of a seed with a reserved feature bit: not UNSUPPORTED, or the block is not wiped and freed exactly once"); d_live = 0; d_foreign_free = 0; }
            }
            d_alloc_fail = 1; back = NULL;
            st = polyseed_decode_explicit(out, coin, l, &back);
            if (st != POLYSEED_ERR_MEMORY || back) BFAIL("decode with a failing allocator does not return the memory status");
            back = NULL; st = polyseed_load(buf, &back);
            if (st != POLYSEED_ERR_MEMORY || back) BFAIL("load with a failing allocator does not return the memory status");
            d_alloc_fail = 0;
        }
        printf("%lu random seeds tried\n", n_);
    } else if (!strcmp(cmd, "encode_worst") && argc == 5) {
        /* encode_worst <lang index> <word index any> <word index even>: longest-word phrase under ASan */
        int li = num(argv[2]); unsigned wa = num(argv[3]) & 2047, we = num(argv[4]) & 2046;
        const polyseed_lang* l = polyseed_get_lang(li);
        unsigned c[16]; for (int i = 0; i < 16; ++i) c[i] = wa; c[2] = we;
        polyseed_data s; memset(&s, 0, sizeof s);
        for (unsigned j = 0; j < 19; ++j) s.secret[j] = spec_unpack_secret_byte(c, j);
        s.birthday = spec_unpack_extra(c) & 1023; s.features = spec_unpack_extra(c) >> 10;
        s.checksum = spec_check(&s);
        unsigned coin = (spec_word(&s, 0) ^ wa) & 2047;   /* makes word 2 the longest word as well */
        polyseed_str out;
        size_t n = polyseed_encode(&s, l, coin, out);      /* ASan reports the overrun */
        CHECK(n < POLYSEED_STR_SIZE && strlen(out) == n, "encode: returned length is not the length of the output / not below the buffer size");
    } else {
        fprintf(stderr, "unknown replay command\n");
        return 3;
    }
    if (!fails) printf("NOT-REPRODUCED\n");
    return fails ? 1 : 0;
}
