"""replaylib.py -- native replay of verifier counterexamples against the real code (see replay/)."""
import json, os, sys

def try_native(payload, work):
    """-> dict(reproduced: bool, detail: str) or None when no native replayer exists for this unit"""
    return {"reproduced": False, "detail": "no native replayer registered for this unit; the counterexample "
            "values reported by the verifier are in 'counterexample'"}

def replay_file(path):
    with open(path) as f:
        p = json.load(f)
    print(json.dumps({k: p.get(k) for k in ("property", "unit", "failed_obligation", "description", "native_replay")}, indent=1))
    return 0
