"""replaylib.py -- native replay of verifier counterexamples against the real code.

try_native(payload, work): builds replay/replay.c against the sources under test (vlib.REPO) with ASan/UBSan,
translates the counterexample of the failed unit into concrete arguments of one replay sub-command and runs
it.  -> {"reproduced": bool, "command": [...], "output": str, "detail": str}
"""
import glob
import json
import os
import re
import shutil
import subprocess
import sys

VERIF = os.path.dirname(os.path.abspath(__file__))
sys.path.insert(0, os.path.join(VERIF, "tools"))
import vlib  # noqa: E402


def build(work, char="signed"):
    d = os.path.join(work, "replay_src")
    exe = os.path.join(d, "replay_" + char)
    if os.path.exists(exe):
        return exe, ""
    os.makedirs(d, exist_ok=True)
    for sub in ("src", "include"):
        if not os.path.exists(os.path.join(d, sub)):
            shutil.copytree(os.path.join(vlib.REPO, sub), os.path.join(d, sub))
    cmd = ["gcc", "-g", "-O1", "-w", "-f%s-char" % char, "-fsanitize=address,undefined", "-fno-sanitize-recover=undefined", "-DPOLYSEED_STATIC",
           "-I" + os.path.join(d, "include"), "-I" + d, "-I" + VERIF, os.path.join(VERIF, "replay", "replay.c")] + \
          sorted(glob.glob(os.path.join(d, "src", "lang_*.c"))) + ["-o", exe]
    p = subprocess.run(cmd, capture_output=True, text=True, timeout=600)
    if p.returncode != 0:
        # an internal function changed its signature: build the API-level commands only
        p2 = subprocess.run(cmd[:1] + ["-DREPLAY_API_ONLY"] + cmd[1:], capture_output=True, text=True, timeout=600)
        if p2.returncode != 0:
            return None, p.stderr[-800:]
    return exe, ""


def _int(v, default=0):
    if v is None:
        return default
    if isinstance(v, (int,)):
        return v
    s = str(v).strip()
    s = re.sub(r"[uUlL]+$", "", s)
    s = re.sub(r"^\(.*?\)", "", s).strip()
    try:
        return int(s, 0)
    except Exception:
        mo = re.search(r"-?\d+", s)
        return int(mo.group(0)) if mo else default


class Cex:
    def __init__(self, inputs):
        self.last = inputs.get("last", inputs) if isinstance(inputs, dict) else {}
        self.first = inputs.get("first", {}) if isinstance(inputs, dict) else {}

    def scalar(self, name, default=0, first=False):
        src = self.first if first else self.last
        for k in (name, name + "!0@1"):
            if k in src:
                return _int(src[k], default)
        return default

    def obj_of(self, param):
        """name of the object the pointer parameter points to (dynamic_object$N), if any"""
        v = self.last.get(param)
        if v is None:
            return None
        mo = re.search(r"(dynamic_object(\$\d+)?)", str(v))
        return mo.group(1) if mo else None

    def array(self, base, n, first=True, default=0):
        src = self.first if first else self.last
        out = []
        for i in range(n):
            v = None
            for key in ("%s[%dl]" % (base, i), "%s[%d]" % (base, i)):
                if key in src:
                    v = src[key]
                    break
            out.append(_int(v, default) & 0xFFFFFFFFFFFFFFFF)
        return out

    def field(self, base, f, first=True, default=0):
        src = self.first if first else self.last
        return _int(src.get("%s.%s" % (base, f)), default)

    def seed_hex(self, obj, first=True):
        b = self.field(obj, "birthday", first) & 0xFFFFFFFF
        f = self.field(obj, "features", first) & 0xFFFFFFFF
        sec = self.array(obj + ".secret", 32, first)
        ck = self.field(obj, "checksum", first) & 0xFFFFFFFFFFFFFFFF
        raw = b.to_bytes(4, "little") + f.to_bytes(4, "little") + bytes(x & 0xFF for x in sec) + ck.to_bytes(8, "little")
        return raw.hex()


def command_for(payload):
    """-> list of replay arguments, or None if this unit has no native replayer"""
    unit = payload.get("unit", "").split("@")[0]
    cx = Cex(payload.get("counterexample", {}))
    if unit == "U.gf.mul2":
        return ["mul2", str(cx.scalar("x"))]
    if unit in ("U.gf.eval", "U.gf.check", "U.gf.encode"):
        obj = cx.obj_of("poly") or cx.obj_of("message")
        if not obj:
            return None
        co = cx.array(obj + ".coeff", 16)
        return [{"U.gf.eval": "eval", "U.gf.check": "check", "U.gf.encode": "encode_poly"}[unit]] + [str(c & 2047) for c in co]
    if unit == "U.gf.pack":
        obj = cx.obj_of("data")
        return ["pack", cx.seed_hex(obj)] if obj else None
    if unit == "U.gf.unpack":
        obj = cx.obj_of("poly")
        return ["unpack"] + [str(c & 2047) for c in cx.array(obj + ".coeff", 16)] if obj else None
    if unit in ("U.st.store", "U.api.store"):
        obj = cx.obj_of("data") or cx.obj_of("seed")
        return ["store", cx.seed_hex(obj)] if obj else None
    if unit == "U.st.load":
        obj = cx.obj_of("storage")
        return ["data_load", bytes(x & 0xFF for x in cx.array(obj, 32)).hex()] if obj else None
    if unit == "U.bd.encode":
        return ["bday", str(cx.scalar("time") & 0xFFFFFFFFFFFFFFFF)]
    if unit == "U.dep.stdlib_time":
        t = cx.scalar("h_time_ret")
        if t >= 1 << 63:
            t -= 1 << 64
        return ["stdlib_time", str(t)]
    if unit == "U.bd.decode":
        return ["bday_decode", str(cx.scalar("birthday"))]
    if unit == "U.ft.enable":
        return ["enable", str(cx.scalar("reserved_features", first=True) & 0xFFFFFFFF), str(cx.scalar("mask", first=True) & 0xFFFFFFFF)]
    if unit == "U.api.keygen":
        obj = cx.obj_of("seed")
        return ["keygen", cx.seed_hex(obj), str(cx.scalar("coin") & 2047), str(min(max(cx.scalar("key_size"), 1), 64))] if obj else None
    if unit == "U.api.create":
        rnd = bytes(x & 0xFF for x in cx.array("G.rand_bytes", 32, first=False)).hex()
        t = _int(cx.last.get("G.time_value"), 0) & 0xFFFFFFFFFFFFFFFF
        af = 1 if str(cx.last.get("G.alloc_failed", "")).upper() in ("TRUE", "1") else 0
        return ["create", str(cx.scalar("features") & 0xFFFFFFFF), rnd, str(t), str(af), str(cx.scalar("reserved_features") & 0xFFFFFFFF)]
    if unit == "U.api.load":
        obj = cx.obj_of("storage")
        af = 1 if str(cx.last.get("G.alloc_failed", "")).upper() in ("TRUE", "1") else 0
        return ["load", bytes(x & 0xFF for x in cx.array(obj, 32)).hex(), str(af), str(cx.scalar("reserved_features") & 0xFFFFFFFF)] if obj else None
    if unit == "U.api.crypt":
        mask = bytes(x & 0xFF for x in cx.array("G.kdf_out", 32, first=False)).hex()
        return ["crypt", cx.seed_hex("old", first=False), mask]
    if unit in ("U.api.decode", "U.api.decode_explicit"):
        names = {"POLYSEED_OK": 0, "POLYSEED_ERR_NUM_WORDS": 1, "POLYSEED_ERR_LANG": 2, "POLYSEED_ERR_CHECKSUM": 3,
                 "POLYSEED_ERR_UNSUPPORTED": 4, "POLYSEED_ERR_FORMAT": 5, "POLYSEED_ERR_MEMORY": 6, "POLYSEED_ERR_MULT_LANG": 7}
        st_txt = str(cx.last.get("h_pd_status", "POLYSEED_OK"))
        st = next((v for k, v in names.items() if st_txt.endswith(k)), _int(st_txt, 0))
        idx = [x & 2047 for x in cx.array("h_pd_idx", 16, first=False)]
        af = 1 if str(cx.last.get("G.alloc_failed", "")).upper() in ("TRUE", "1") else 0
        return (["decode", "1" if unit.endswith("explicit") else "0", str(_int(cx.last.get("h_split_ret"), 16)), str(st)]
                + [str(i) for i in idx] + [str(cx.scalar("coin") & 2047), str(af), str(cx.scalar("reserved_features") & 0xFFFFFFFF)])
    if unit in ("U.lang.phrase_decode", "U.lang.phrase_decode_explicit"):
        return ["phrase_auto", "2"]
    if unit == "U.api.encode":
        if "seed.birthday" not in cx.last:
            return None
        comp = str(cx.last.get("h_lang.compose", "")).upper() in ("TRUE", "1")
        return ["encode", cx.seed_hex("seed", first=False), str(cx.scalar("coin") & 2047), "3" if comp else "0"]
    if unit == "B.str.nfkd_lazy":
        b = bytes(x & 0xFF for x in cx.array("str", 16, first=True)).split(b"\x00")[0]
        return ["nfkd_lazy", b.hex() or "00"]
    if unit == "U.str.split":
        b = bytes(x & 0xFF for x in cx.array("g_orig", 576, first=True)).split(b"\x00")[0]
        return ["split", b.hex() or "00"]
    if unit.startswith("B.cmp."):
        key = bytes(x & 0xFF for x in cx.array("key", 16, first=False))
        elm = bytes(x & 0xFF for x in cx.array("elm", 16, first=False))
        key = key.split(b"\x00")[0]; elm = elm.split(b"\x00")[0]
        return ["cmp", unit[len("B.cmp."):], key.hex() or "00", elm.hex() or "00"]
    return None


def run_cmd(args, work, char="signed"):
    exe, err = build(work, char)
    if exe is None:
        return {"reproduced": False, "detail": "replay driver does not build against the sources under test: " + err}
    env = dict(os.environ, ASAN_OPTIONS="detect_leaks=0:abort_on_error=0", UBSAN_OPTIONS="print_stacktrace=0")
    try:
        p = subprocess.run([exe] + args, capture_output=True, text=True, timeout=120, env=env)
    except subprocess.TimeoutExpired:
        return {"reproduced": False, "command": args, "detail": "native replay timed out"}
    out = (p.stdout + p.stderr)[-1500:]
    if p.returncode == 3:
        return {"reproduced": False, "command": args, "output": out, "detail": "replay driver rejected the arguments"}
    rep = p.returncode != 0
    return {"reproduced": rep, "command": ["replay"] + args, "output": out,
            "detail": ("the real code fails the same postcondition on the verifier's input (or a sanitizer fired)" if rep
                       else "the real code satisfies the postcondition on the extracted input: the counterexample could not be confirmed natively")}


def try_native(payload, work):
    if payload.get("engine") and str(payload.get("failed_obligation", "")).startswith("S."):
        # static facts about the program text (a new mutable static, a direct libc call): there is no input to replay
        return {"reproduced": False, "detail": "static fact about the program text (goto symbol table / call sites): no input exists to replay; "
                "the witness is the offending symbol or call site in 'description'"}
    if payload.get("engine"):
        # closed obligations are evaluated natively on the real code already: the witness IS a failing input
        nat = {"reproduced": True, "detail": "closed obligation evaluated natively on the real tables/comparers/search; witness in 'description'"}
        w = payload.get("witness") or {}
        if payload.get("failed_obligation", "").startswith("T.fits") and "lang_index" in w:
            r = run_cmd(["encode_worst", str(w["lang_index"]), str(w["word_any"]), str(w["word_even"])], work)
            nat["asan_replay"] = r
        return nat
    try:
        args = command_for(payload)
    except Exception as e:
        return {"reproduced": False, "detail": "counterexample could not be translated: %r" % e}
    if not args:
        return {"reproduced": False, "detail": "no native replayer for this unit (lemma, contract-stub harness or ghost-only obligation); "
                "the verifier's counterexample values are in 'counterexample'"}
    return run_cmd(args, work, payload.get("char") or "signed")


def replay_file(path):
    with open(path) as f:
        p = json.load(f)
    print("property:", p.get("property"), " failed obligation:", p.get("failed_obligation"))
    print("description:", p.get("description"))
    nat = p.get("native_replay") or {}
    if nat.get("command"):
        work = os.path.join(VERIF, ".work", "replay.%d" % os.getpid())
        os.makedirs(work, exist_ok=True)
        r = run_cmd(nat["command"][1:], work, p.get("char") or "signed")
        print(json.dumps(r, indent=1))
        shutil.rmtree(work, ignore_errors=True)
        return 1 if r.get("reproduced") else 0
    print(json.dumps(nat, indent=1))
    return 1 if nat.get("reproduced") else 0
