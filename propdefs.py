"""propdefs.py -- per-property definitions used by ./check and tools/mkmanifest.py"""

TRUSTED_BASE = [
    "CBMC 6.11.0 C front end and symbolic execution (LP64 x86-64 data model), goto-instrument contract "
    "instrumentation (dfcc), CaDiCaL SAT back end",
    "stubs/deps.h: assumed contracts of the eight injected dependencies (randbytes, pbkdf2_sha256, memzero, "
    "u8_nfc, u8_nfkd, time, alloc, free)",
    "CBMC built-in models of memcpy, memset, memcmp, malloc, free",
    "stubs/bsearch_model.h: libc bsearch is modelled by the textbook binary search (glibc's algorithm); its contract is derived inside U.lang.search, not assumed",
    "contracts/spec.h: the specification functions, written from the property statements and README",
]

COMMON_ASSUMPTIONS = [
    "machine arithmetic is bit-precise (no mathematical-integer abstraction); LP64 only",
    "dependency stubs (stubs/deps.h) model the injected functions; their bodies are assumptions, not proof",
    "loops with literal constant trip counts (3, 10, 15, 16, 19, 32) are unrolled completely with unwinding "
    "assertions on; a too-small bound fails the unwinding assertion and is reported UNDECIDED",
]

PROPS = {}

def P(pid, **kw):
    PROPS[pid] = kw

TECH = ("CBMC 6.11 function contracts on the real sources: goto-instrument --dfcc contract enforcement (mode D), "
        "harness-enforced contracts with woven loop invariants and contract stubs (mode H), lemma harnesses over the contracts; "
        "closed word-list obligations evaluated exhaustively; goto symbol-table static facts")

GF = ["U.gf.mul2", "U.gf.eval", "U.gf.encode", "U.gf.check"]
PACK = ["U.gf.pack", "U.gf.unpack", "L.pack.inv1", "L.pack.inv2"]
DEC = ["U.api.decode", "U.api.decode_explicit"]
PHR = ["U.lang.phrase_decode", "U.lang.phrase_decode_explicit"]
CMPU = ["U.cmp.str", "U.cmp.prefix", "U.cmp.str_noaccent", "U.cmp.prefix_noaccent"]
CMPB = ["B.cmp.str", "B.cmp.prefix", "B.cmp.str_noaccent", "B.cmp.prefix_noaccent",
        "B.cmp.str.big", "B.cmp.prefix.big", "B.cmp.str_noaccent.big", "B.cmp.prefix_noaccent.big"]
FT = ["U.ft.make", "U.ft.get", "U.ft.isenc", "U.ft.supported", "U.ft.enable"]
API_D = ["U.api.create", "U.api.free", "U.api.keygen", "U.api.store", "U.api.load", "U.api.get_birthday", "U.api.get_feature", "U.api.is_encrypted"]

CMPF = ["U.cmpf.str", "U.cmpf.prefix", "U.cmpf.str_noaccent", "U.cmpf.prefix_noaccent", "U.cmpf.str_noaccent.full", "U.cmpf.prefix_noaccent.full", "L.cmpf.axioms", "L.cmp.order"]
STRL = ["U.str.nfkd_lazy", "B.str.nfkd_lazy", "U.str.split"]
STORE = ["U.st.store", "U.st.load", "U.api.store", "U.api.load", "L.st.inv1", "L.st.inv2"]
BD = ["U.bd.encode", "U.bd.decode"]
NDEBUG_ALL = ["U.dep.inject@ndebug", "U.api.store@ndebug", "U.lang.search@ndebug"]
NDEBUG = NDEBUG_ALL + ["U.api.free@ndebug", "U.api.create@ndebug", "U.api.load@ndebug", "U.api.crypt@ndebug", "U.api.decode@ndebug", "U.api.decode_explicit@ndebug", "U.lang.phrase_decode@ndebug", "U.api.keygen@ndebug", "U.api.encode@ndebug"]
ND_COMMON = []

def uniq(l):
    out = []
    for x in l:
        if x not in out:
            out.append(x)
    return out

P("C01", level="proof", design_ref="7/C01", units=uniq(PACK + ["U.api.encode", "U.str.write", "U.str.write.full"] + DEC + PHR + ["U.lang.search", "U.str.split", "U.str.nfkd_lazy", "L.rt.index", "U.lang.get_comparer"] + ["U.api.decode@ndebug", "U.api.decode_explicit@ndebug", "U.api.encode@ndebug", "U.lang.phrase_decode@ndebug", "U.lang.search@ndebug"]),
  engines=["tables", "statics", "encwords"],
  technique='CBMC 6.11 contracts: dfcc-enforced function contracts on pack/unpack with inverse lemmas; harness-enforced contracts (woven loop invariants, contract stubs) on encode, both decoders, both phrase decoders, tokeniser, lazy NFKD, search; round-trip lemma over those contracts; closed word-list facts by exhaustive native evaluation; goto symbol-table scan for hidden state',
  text="Round trip decomposed into contracts proved on the real functions: packing/unpacking against the published layout with both "
       "inverse lemmas; polyseed_encode (sequence-level contract over an abstract language object: 16 words and 15 separators in order, "
       "cursor arithmetic, NFC hand-off); both decoders (status function and inverse layout); both phrase decoders over an arbitrary "
       "search-outcome matrix (auto-detection gives the same language and indices or MULT_LANG, never anything else); lemma L.rt.index "
       "composes them for every canonical seed, coin and enabled-feature mask. Closed obligations on the real tables: every word is found "
       "at its own index, tokens survive join/split, phrases survive NFC->NFKD, zh_s/zh_t overlap census.",
  note="Composition of the string-level steps (join, NFC, NFKD, split, search) from their separately proved contracts is a written argument "
       "(DESIGN 7/C01), not one machine-checked theorem; NFC/NFKD are injected dependencies (utf8proc used for the closed Unicode facts); "
       "libc bsearch is modelled by the textbook algorithm (stubs/bsearch_model.h); byte content of the joined text inside polyseed_encode follows from the proved call sequence plus write_str's contract.",
  not_decided=["one end-to-end theorem over real strings (the composition above is glue)"])
P("C02", level="proof", design_ref="7/C02", units=uniq(GF + ["L.gf.single", "L.gf.swap", "L.gf.unique", "U.api.load"] + DEC + PHR + ["U.lang.search", "U.str.split", "U.str.nfkd_lazy"]), engines=["tables", "statics"],
  technique="CBMC 6.11 contracts: dfcc-enforced contracts on the GF(2^11) layer against a Horner specification; single-error / transposition / uniqueness lemmas over the gf_poly_check contract; decoder, phrase-decoder and load contracts for the status; closed fact 'distinct words' by exhaustive evaluation",
  text="gf_elem_mul2, gf_poly_eval, gf_poly_encode, gf_poly_check are proved equal to a GF(2^11) Horner specification for "
       "all 2048 elements / all 2^176 polynomials; single-error, transposition and check-word-uniqueness lemmas are proved "
       "over those contracts with every coefficient, position and value symbolic; the decoders' and polyseed_load's contracts show the "
       "checksum status is returned exactly when the evaluation is non-zero, before any allocation (decoders) and with no seed surviving.",
  note="'another word of the same list' = another coefficient by the closed fact T.distinct (all words pairwise distinct under the comparer).")
P("C03", level="proof", design_ref="7/C03", units=uniq(uniq(["U.gf.pack", "U.gf.encode", "L.gf.unique", "U.api.encode", "U.str.write", "U.str.write.full", "U.api.create", "L.rt.index"] + ["U.api.encode@ndebug", "U.api.create@ndebug"]) + ["U.str.nfkd_lazy"]), engines=["tables", "statics", "calls", "encwords"],
  technique='CBMC 6.11 contracts: dfcc-enforced contract of polyseed_data_to_poly against the published layout written independently; harness-enforced sequence contract of polyseed_encode; write_str proved with a woven loop invariant; registry/golden facts exhaustive; goto symbol-table scan for hidden state (purity)',
  text="polyseed_data_to_poly is proved equal to the published layout written independently in spec.h (check word first, 10 secret bits MSB "
       "first + one feature/birthday bit per word); polyseed_encode is proved to use the stored check value as word 1, XOR the coin into word 2 "
       "only, write words[c0] sep ... words[c15] in order with the language's separator and apply NFC exactly when the language composes, "
       "to be a function of (seed, coin, language) only and to change nothing; per-language separator/compose flags and frozen lists are closed facts.",
  note="spec.h is the independent implementation; encode is proved over an abstract language object (table entry x -> one of 16 arbitrary strings); "
       "NFC itself is an injected dependency.")
P("C04", level="proof", design_ref="7/C04", units=uniq(["U.api.keygen", "L.kdf.injective", "L.rt.index", "L.crypt.involution", "U.api.crypt", "U.gf.unpack", "U.st.load", "U.api.create"] + ["U.api.keygen@ndebug"]), engines=["statics"],
  technique="CBMC 6.11 contracts: dfcc-enforced contract of polyseed_keygen with a ghost-recording PBKDF2 stub (every argument byte pinned, frame checked by assigns clauses); injectivity lemma; constructors' zero-padding contracts; goto symbol-table scan for hidden state",
  text="polyseed_keygen is proved against a contract that pins every KDF argument byte for byte (ghost-recording stub): "
       "one call, pw = 32-byte secret buffer, 32-byte salt per the published layout, 10000 iterations, caller's buffer and "
       "length passed through, key bytes not touched afterwards, no other dependency called, seed unchanged (frame); injectivity lemma; "
       "every constructor zero-pads the secret buffer, so equal abstract seeds give equal inputs on every path.",
  note="The PBKDF2 function itself is an injected dependency (assumed). key_size is symbolic in 1..64 (object-size cap).")
P("C05", level="proof", design_ref="7/C05", units=uniq(["L.gf.coin", "U.gf.mul2", "U.gf.eval", "U.gf.check", "U.api.encode", "L.rt.index"] + DEC + PHR + ["U.gf.pack", "U.str.split"]), engines=["tables", "statics", "encwords"],
  technique="CBMC 6.11 contracts: coin lemma over the gf_poly_check contract (all coin pairs symbolic); encode / decoder / phrase-decoder contracts; round-trip lemma with two coins; closed fact 'distinct words'",
  text="Lemma over the gf_poly_check contract: a valid codeword with coin A applied and coin B removed validates iff A == B, "
       "for all 2048x2048 pairs and all polynomials; encode applies the coin to word 2 only and after the check value, both decoders remove it "
       "before the check; L.rt.index: decode(encode(s, A), B) is OK iff A == B, ERR_CHECKSUM otherwise, and the phrases differ in word 2 only.",
  note="'differ in the second word only' at the level of strings uses the closed fact that distinct indices are distinct words.")
P("C06", level="proof", design_ref="7/C06", units=uniq(uniq(["U.st.store", "U.st.load", "U.api.store", "U.api.load", "L.st.inv1", "L.st.inv2"] + FT + ["U.gf.pack", "U.gf.check", "U.api.free"]) + ["U.api.load@ndebug", "U.api.store@ndebug"]), engines=["statics"],
  technique='CBMC 6.11 contracts: dfcc-enforced contracts of polyseed_data_store / polyseed_data_load against a byte-level image specification (all 2^256 buffers), polyseed_load status precedence and allocator ledger, both inverse lemmas; feature-mask contracts',
  text="polyseed_data_store / polyseed_data_load proved against the byte-level image specification for all seeds and all 2^256 "
       "buffers; polyseed_load proved to return MEMORY, FORMAT, CHECKSUM, UNSUPPORTED, OK in that precedence, to hand out a "
       "canonical seed whose image is the buffer on OK and to free the wiped block otherwise; inverse lemmas over the contracts.",
  note="LP64 only; allocator/free/memzero are stubs (assumed).")
P("C07", level="other", design_ref="7/C07, 6", units=uniq(["U.lang.search", "U.lang.get_comparer", "U.lang.registry"] + CMPU + ["U.str.split", "U.str.nfkd_lazy"] + PHR + DEC + CMPF + CMPB), engines=["tables", "encwords"], exhaustive=True,
  technique='exhaustive native evaluation of closed obligations over the 10 x 2048 constant strings through the real comparers and the real search (deciding step), golden digests; CBMC contracts for lang_search, the comparers (functional rule, woven invariants), tokeniser, phrase decoders; order lemma for binary search',
  text="Mostly closed obligations over 10 x 2048 constant strings, decided by exhaustive native evaluation through the real comparers and the real "
       "search (registry, strict sortedness, all pairs distinct, each word found at its own index, first-four-letters uniqueness, Unicode "
       "stability with utf8proc, SHA-256 against the digests recorded at the pinned release); the contract part (lang_search returns the index "
       "whose word compares equal, registry accessors, comparer selection) is proved with CBMC.",
  note="'frozen as published' is a comparison with golden digests, not a deduction; libc bsearch is modelled by the textbook algorithm (stubs/bsearch_model.h); utf8proc is the trusted normaliser. "
       "KNOWN FINDING: the literal clause 'no word is a prefix of another' is false for the published English and Spanish lists "
       "(act/action, ano/anotar ...: words shorter than four letters); lists are frozen, see known_findings.json.")
P("C08", level="proof", design_ref="7/C08", units=uniq(CMPB + CMPU + ["U.lang.get_comparer"] + DEC + STRL + PHR + CMPF), engines=["tables", "encwords"],
  technique='CBMC 6.11 contracts: the four comparers against the acceptance rule with woven inductive invariants (compare_str / compare_prefix full domain; accent-skipping comparers bounded in the key length in the quick tier, full key object in the thorough tier), bounded shadow units without woven text, unbounded memory-safety units; order lemma; exhaustive evaluation of the rule on every prefix x accent subset x spelling of every word through the real search',
  text="Each comparer is proved equal to the reference acceptance rule (full word, or prefix of >= 4 base letters, accents = non-ASCII bytes "
       "ignored in es/fr) AND to the order of the first differing letters, with woven inductive invariants over ghost count / stripped-string "
       "arrays: compare_str and compare_prefix for every key in an object as large as a polyseed_str and every element object up to 64 bytes "
       "(unbounded route, all byte values, both char settings); the two accent-skipping comparers for keys up to 63 bytes in the quick tier "
       "(bounded in the key length, not counted as proved) and for the full key object in the thorough tier; all four proved memory-safe and "
       "terminating for all strings; bounded shadow units without woven text; order lemma (what binary search needs) over the comparer "
       "contract; the real search is evaluated exhaustively on every prefix length x accent subset x NFC/NFKD spelling x one-letter "
       "continuation of every word of every list against the rule; decoders depend on tokens only through the search result; lazy NFKD and "
       "the tokeniser are proved for strings of any length.",
  note="Quick tier: the accent-skipping comparers' functional rule is BOUNDED in the key length (63 bytes); element length is exact by the closed "
       "fact T.wordlen. 'accent' means any non-ASCII byte after NFKD (stated interpretation). The ghost arrays are fixed by axioms A1-A5 "
       "(harness/cmp_rule.c); A5 follows from A1 by induction over the position (base and step checked in L.cmpf.axioms).")
P("C09", level="proof", design_ref="7/C09", units=uniq(uniq(PHR + DEC + ["U.str.split", "U.lang.search"] + ["U.str.nfkd_lazy", "U.gf.check", "U.lang.get_comparer"]) + ["U.api.decode@ndebug", "U.api.decode_explicit@ndebug", "U.lang.phrase_decode@ndebug", "U.lang.search@ndebug"]), engines=["tables", "statics", "encwords"],
  technique='CBMC 6.11 contracts: both phrase decoders over an arbitrary search-outcome matrix (lang_search replaced by its contract), both API decoders with contract stubs (status precedence), str_split against a functional tokeniser specification with woven loop invariants; closed facts on the tables',
  text="Both phrase decoders are proved over every search-outcome matrix (OK iff exactly one language recognises all 16 tokens, then the same "
       "indices and language as explicit decoding; MULT_LANG iff two or more, regardless of checksums; LANG iff none); both API decoders are "
       "proved to follow the precedence word count, language, checksum, memory, unsupported; str_split is proved against a functional tokeniser "
       "specification for strings of any length (empty tokens kept, one trailing space ignored, 17th token reported).",
  note="Unbounded str_split proof uses woven loop invariants with bounded quantifiers over the 576-byte buffer; empty token never matches a word by T.token_safe.")
P("C10", level="proof", design_ref="7/C10", units=uniq(uniq(FT + ["U.api.create", "U.api.load", "U.api.get_feature", "U.api.is_encrypted", "L.pack.inv1", "L.st.inv1", "U.api.crypt", "L.rt.index"] + DEC + ["U.bd.encode", "U.gf.pack", "U.gf.unpack", "U.st.store", "U.st.load", "U.api.store"]) + ["U.api.create@ndebug", "U.api.load@ndebug", "U.api.decode@ndebug", "U.api.decode_explicit@ndebug"]), engines=["statics"],
  technique='CBMC 6.11 contracts: dfcc-enforced contracts of the feature functions (enable from an arbitrary previous mask), of create / load and the harness-enforced decoder contracts with a symbolic reserved mask; packing / storage / crypt lemmas carry all five bits; birthday clamp contract',
  text="polyseed_enable_features proved from an arbitrary previous mask (most recent call wins, popcount returned); "
       "features_supported, make/get_features, is_encrypted proved; create, both decoders and load proved to refuse exactly the reserved bits "
       "(create before allocating; the others after the checksum, freeing the block); feature bits carried by the phrase/storage/crypt lemmas.",
  note="The reserved mask is symbolic in every entry-point proof (all eight enabled masks).")
P("C11", level="proof", design_ref="7/C11", units=uniq(["U.bd.encode", "U.bd.decode", "U.dep.stdlib_time", "U.api.get_birthday", "U.api.create", "L.pack.inv1", "L.st.inv1", "U.api.crypt", "L.rt.index", "U.gf.pack", "U.gf.unpack", "U.st.store", "U.st.load", "U.api.load"] + DEC + ["U.api.create@ndebug"]),
  technique='CBMC 6.11 contracts: birthday_encode / birthday_decode against a division-free specification over all 2^64 clock values (dfcc), polyseed_create with a ghost-recording clock stub, the libc fallback clock stdlib_time over all time_t values; packing / storage / crypt contracts carry the 10 bits',
  text="birthday_encode proved against a division-free specification for all 2^64 clock values; birthday_decode and "
       "polyseed_get_birthday proved = epoch + k*step without overflow; polyseed_create proved to stamp the seed from exactly "
       "one call of the injected clock; packing, storage and crypt contracts carry all 10 bits unchanged.",
  note="The clock is an injected dependency (assumed arbitrary uint64).")
P("C12", level="proof", design_ref="7/C12", units=uniq(uniq(["U.api.crypt", "L.crypt.involution", "L.crypt.wrongpw", "U.str.nfkd_lazy", "U.api.is_encrypted", "U.ft.isenc"] + ["U.st.store", "U.st.load", "L.st.inv1", "U.gf.pack", "U.gf.unpack", "U.gf.encode", "L.pack.inv1", "U.api.store", "U.api.load"]) + ["U.api.crypt@ndebug"]), engines=["statics"],
  technique="CBMC 6.11 contracts: harness-enforced contract of polyseed_crypt for every 32-byte mask with a ghost-recording PBKDF2 stub; involution and wrong-password lemmas; lazy NFKD contract (woven loop invariant); storage / packing contracts for 'usable like any seed'",
  text="polyseed_crypt proved for every 32-byte mask: one KDF call with pw = the normalised password without terminator, the 16-byte mask salt, "
       "10000 iterations, 32 bytes; 19 bytes XORed with the top two bits of the 19th dropped, flag toggled, birthday/user bits unchanged, check "
       "value recomputed (canonical for every mask); involution and wrong-password lemmas over that postcondition.",
  note="'NFKD(password)' is the injected dependency's result (utf8_nfkd_lazy proved to call it iff a non-ASCII byte occurs in the first "
       "POLYSEED_STR_SIZE-1 bytes); longer ASCII passwords are truncated by the library -- outside the claimed domain, reported as an observation.")
P("C13", level="proof", design_ref="7/C13", units=uniq(uniq(API_D + DEC + ["U.api.crypt", "U.api.encode", "U.ft.enable", "U.dep.inject", "U.gf.mul2"] + PACK + ["L.st.inv1", "L.rt.index", "L.crypt.involution"] + GF + FT + BD + ["U.st.store", "U.st.load", "L.st.inv2", "U.dep.stdlib_time"]) + NDEBUG),
  engines=["statics", "calls"],
  technique='CBMC 6.11 contracts: representation invariant established / preserved by every operation (dfcc and harness-enforced contracts), frames by assigns clauses and snapshots; goto symbol-table and goto-program scan: the only mutable statics and their only writers; induction over histories is glue',
  text="Data refinement step by step: every constructor establishes the representation invariant (canonical) from a block with arbitrary "
       "contents, crypt preserves it, observers are functions of the abstract view; frames proved by dfcc assigns clauses / snapshots; the "
       "only mutable statics are the four known ones and each is written only by its owner (symbol-table + goto-program scan).",
  note="Induction over call histories is the standard, unmechanised glue; each step is machine-checked.",
  not_decided=["the induction over arbitrary finite histories itself"])
P("C14", level="proof", design_ref="7/C14", units=uniq(uniq(["U.str.nfkd_lazy", "B.str.nfkd_lazy", "U.str.split", "U.lang.search", "U.st.load", "U.api.load", "U.api.crypt"] + CMPU + PHR + DEC + CMPB + ["U.gf.check", "U.gf.unpack"]) + NDEBUG), engines=["statics"],
  technique='CBMC 6.11 contracts with bounds / pointer / overflow checks and library assert()s enabled on every unit; woven inductive invariants with decreases clauses close every string loop (memory safety and termination for any length); bounded shadow units without woven text; NDEBUG variants',
  text="Every unit runs with bounds, pointer, pointer-overflow, signed-overflow, shift and division checks and with the library's own assert()s "
       "enabled; all string loops (lazy NFKD, tokeniser, four comparers, linear search) are closed by inductive invariants with decreases "
       "clauses, so memory safety and termination hold for strings of any length; decoders/crypt/load return only documented statuses, do not "
       "write their input, and leave nothing allocated on failure.",
  note="Caller string objects are symbolic up to 1200 bytes (nfkd_lazy) / 576 bytes (comparer keys); libc bsearch modelled by the textbook algorithm; dependency stubs assumed.")
P("C15", level="proof", design_ref="7/C15", units=uniq(["U.api.create", "U.api.free", "U.api.load", "U.st.load", "U.gf.unpack"] + DEC + ["U.api.create@ndebug", "U.api.load@ndebug", "U.api.free@ndebug", "U.api.decode@ndebug", "U.api.decode_explicit@ndebug"]),
  technique='CBMC 6.11 contracts: allocator-ledger stubs (ghost state) in the dfcc-enforced contracts of create / load / free and the harness-enforced decoder contracts: at most one allocation, freed exactly once on failure after wiping, NULL handled, arbitrary block contents',
  text="Allocator ledger contracts: create, load and both decoders call the injected allocator at most once with sizeof(seed); every failure "
       "path returns the block through the injected free exactly once (after wiping) and leaves nothing live; NULL from the "
       "allocator gives the memory status with *seed_out untouched; polyseed_free(NULL) calls nothing; the free stub rejects "
       "foreign and repeated pointers; block contents are arbitrary in every proof.",
  note="'Subsequent calls behave normally' follows from the frame obligations of C13 (the only state is the ledger and the four statics).")
P("C16", level="proof", design_ref="7/C16", units=["U.api.free", "U.api.crypt", "U.api.encode", "U.lang.phrase_decode", "U.api.create", "U.api.load"] + DEC + NDEBUG, engines=["statics", "locals"],
  technique='CBMC 6.11 contracts: memzero ghost log in polyseed_free / create / load contracts; woven exit assertions (every secret-bearing local all-zero and wiped through the injected function with its full size) on encode, decoders, crypt, auto-detection; repeated with assert()s compiled out (NDEBUG)',
  text="polyseed_free proved to wipe the block through the injected memzero before the injected free receives it; woven exit assertions prove "
       "that str_tmp, words, poly, mask, pass_norm and the index copy of auto-detection are all-zero and were wiped through the injected "
       "function with their full size on every exit of encode, both decoders, crypt and polyseed_phrase_decode; create/load wipe poly.",
  note="Source-level only: compiler-made copies (spills, registers), dead stack contents and other optimisation levels are outside what a "
       "source-level contract can express.",
  not_decided=["residue in registers / dead stack frames of the compiled binary; behaviour at other optimisation levels"])
P("C17", level="proof", design_ref="7/C17", units=uniq(["U.str.write", "U.str.write.full", "U.api.encode", "U.str.nfkd_lazy"] + ["U.api.encode@ndebug"]), engines=["tables", "statics", "encwords"],
  technique='exhaustive native evaluation of T.fits per language (NFKD and NFC forms, per-position maxima) + CBMC contracts: write_str advance contract (woven loop invariant), polyseed_encode cursor arithmetic and length assertion under fits, lazy NFKD bound; goto symbol-table scan for shared buffers',
  text="T.fits[lang]: for each registered language the sum of per-position maximal word lengths (admissible indices) plus separators is "
       "below POLYSEED_STR_SIZE in both the NFKD and the NFC form (exhaustive); write_str proved to advance by exactly strlen and to write only "
       "its slice; polyseed_encode proved, under fits, to keep every intermediate cursor and the terminator inside the buffer, to satisfy its own "
       "length assertion and to return the length of the output; decoders/crypt normalise without overrun.",
  note="NFC length bound uses utf8proc and the no-composition-across-separator fact (T.unicode).")
P("C18", level="proof", design_ref="7/C18", units=uniq(["U.api.create", "U.dep.inject", "U.dep.stdlib_time", "U.api.keygen", "U.api.free"] + ["U.dep.inject@ndebug", "U.api.create@ndebug", "U.api.keygen@ndebug", "U.api.free@ndebug"]), engines=["calls", "statics"],
  technique='CBMC 6.11 contracts: polyseed_create with ghost-recording randomness / clock stubs and every other dependency requires(false); polyseed_inject from an arbitrary previous table; stdlib_time; goto-program scan of direct call targets and address-taken externals',
  text="polyseed_create proved to take exactly 19 bytes from the injected random source into the secret (top two bits dropped), to call the "
       "injected clock exactly once and nothing else; polyseed_inject proved, from an arbitrary previous table, to copy every entry and to fall "
       "back to libc time/malloc/free exactly for NULL entries; goto-program scan: no direct call to any other external function.",
  note="The scan is of direct call targets before function-pointer removal; pointer calls must go through a polyseed_deps member.")
P("C19", level="proof", design_ref="7/C19", both_chars=True, units=uniq(["U.str.nfkd_lazy", "B.str.nfkd_lazy", "U.api.crypt", "U.str.split"] + DEC + PHR + CMPU + CMPB + CMPF + ["U.api.encode", "U.str.write"]), engines=["tables"],
  technique='every char-sensitive CBMC unit (lazy NFKD, tokeniser, comparers: functional rule, safety, bounded shadows; decoders, crypt) and every closed word-list fact evaluated under both -fsigned-char and -funsigned-char against the same byte-value specification',
  text="Every unit that handles plain char (lazy NFKD, tokeniser, the four comparers: unbounded safety and bounded rule, both decoders, crypt, the "
       "phrase decoders) is verified under -fsigned-char and -funsigned-char against the same byte-value specification; all closed word-list facts (sortedness, search, acceptance rule) are "
       "evaluated with both settings and must agree.",
  note="All other functions do not operate on plain char values (byte arrays are uint8_t); goto-cc honours -funsigned-char (measured).")
P("C20", level="other", design_ref="7/C20", units=uniq(API_D + DEC + ["U.api.crypt", "U.api.encode", "U.dep.inject", "U.ft.enable"] + ["U.dep.inject@ndebug"]), engines=["statics", "calls"],
  technique='sufficient condition only: frames of every API function (dfcc assigns clauses / snapshots), goto symbol-table scan (no mutable static-lifetime object besides the four known ones, each written only by its owner), goto-program scan of call targets (no libc function with hidden state); race-freedom itself is a written meta-argument',
  text="Sequential contracts cannot explore schedules; what is proved is the sufficient condition: every API function other than "
       "inject/enable_features writes only objects reachable from its arguments, its locals and blocks it allocated (frames), and the only "
       "mutable static-lifetime objects are the four known ones, written only by inject/enable_features; no function-local statics.",
  note="Meta-argument (not machine-checked): threads that only read shared locations and write disjoint objects are race-free and observe "
       "serial results; injected functions' thread-safety is the caller's. No interleaving is executed.",
  not_decided=["actual interleavings / ThreadSanitizer-style dynamic exploration"])

# ---------------------------------------------------------------------------------------------------------------------
# CORE: every property is an end-to-end statement about the API, so a change in any layer can break it.  The seeded-change
# rounds (DESIGN 12.7) showed that a list restricted to the units that "own" a property's mechanism misses changes made
# elsewhere on the call path.  Every check therefore also runs all the cheap units (each < 10 s, plus create / load); the
# expensive ones (tokeniser, write_str, encode, comparers, search, phrase decoders, lazy NFKD) stay listed per property.
CORE = GF + PACK + ["L.gf.single", "L.gf.swap", "L.gf.unique", "L.gf.coin", "U.st.store", "U.st.load", "L.st.inv1", "L.st.inv2",
        "U.bd.encode", "U.bd.decode"] + FT + API_D + DEC + ["U.api.crypt", "L.crypt.involution", "L.crypt.wrongpw", "L.rt.index",
        "L.kdf.injective", "U.dep.inject", "U.dep.stdlib_time", "U.lang.get_comparer", "U.lang.registry", "L.cmp.order", "L.cmpf.axioms",
        "B.str.nfkd_lazy", "B.cmp.str", "B.cmp.prefix",
        "U.api.free@ndebug", "U.api.create@ndebug", "U.api.load@ndebug", "U.api.crypt@ndebug", "U.api.decode@ndebug",
        "U.api.decode_explicit@ndebug", "U.api.keygen@ndebug", "U.dep.inject@ndebug", "U.api.store@ndebug"]
CORE_ENGINES = ["statics", "calls", "encwords"]   # cheap (seconds): hidden state, direct libc calls, every table word through the real encoder / decoders
for _pid, _p in PROPS.items():
    _p["own_units"] = list(_p.get("units", []))
    _p["units"] = uniq(_p.get("units", []) + CORE)
    _p["engines"] = uniq(list(_p.get("engines", [])) + CORE_ENGINES)

NOT_APPLICABLE = {}
HOOK_COMMITS = []
NOTES = ("All checks rebuild from /repo's working tree on every run (sources are copied to a private scratch directory under "
         "/verif/.work and specification-only text is woven in; the weave is checked reversible byte for byte). Exit 0 held, "
         "1 VIOLATION, 2 UNDECIDED (timeout, weave/compile break, tool error) -- an undecided obligation is never reported as a violation. "
         "Five genuine defects were repaired by fix: commits in /repo (known_findings.json, DESIGN.md section 12.3); one open known finding (C07, frozen word lists). "
         "When a unit is undecided the check additionally runs a native refutation search through the public API (replay api_battery); only a concrete failing input found there is reported as a violation.")
