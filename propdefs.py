"""propdefs.py -- per-property definitions used by ./check and tools/mkmanifest.py"""

TRUSTED_BASE = [
    "CBMC 6.11.0 C front end and symbolic execution (LP64 x86-64 data model), goto-instrument contract "
    "instrumentation (dfcc), CaDiCaL SAT back end",
    "stubs/deps.h: assumed contracts of the eight injected dependencies (randbytes, pbkdf2_sha256, memzero, "
    "u8_nfc, u8_nfkd, time, alloc, free)",
    "CBMC built-in models of memcpy, memset, memcmp, malloc, free",
    "contracts/spec.h: the specification functions, written from the property statements and README",
]

COMMON_ASSUMPTIONS = [
    "machine arithmetic is bit-precise (no mathematical-integer abstraction); LP64 only",
    "dependency stubs (stubs/deps.h) model the injected functions; their bodies are assumptions, not proof",
    "loops with literal constant trip counts (3, 10, 15, 16, 19, 32) are unrolled completely with unwinding "
    "assertions on; a too-small bound fails the unwinding assertion and is reported UNDECIDED",
]

PROPS = {}

def P(pid, **kw):
    PROPS[pid] = kw

TECH = "CBMC 6.11 function contracts enforced with goto-instrument --dfcc on the real sources + lemma harnesses over the contracts"

P("C02", level="proof", technique=TECH, design_ref="7/C02",
  text="gf_elem_mul2, gf_poly_eval, gf_poly_encode, gf_poly_check are proved equal to a GF(2^11) Horner specification for "
       "all 2048 elements / all 2^176 polynomials; single-error, transposition and check-word-uniqueness lemmas are proved "
       "over those contracts with every coefficient, position and value symbolic; polyseed_load's contract shows the "
       "checksum status is returned exactly when the evaluation is non-zero and that no seed survives.",
  note="Lifting to phrases uses the decoder contracts (units U.dec.*) and the closed word-list fact 'distinct words <-> distinct indices'.",
  not_decided=[])
P("C04", level="proof", technique=TECH, design_ref="7/C04",
  text="polyseed_keygen is proved against a contract that pins every KDF argument byte for byte (ghost-recording stub): "
       "one call, pw = 32-byte secret buffer, 32-byte salt per the published layout, 10000 iterations, caller's buffer and "
       "length passed through, key bytes not touched afterwards, no other dependency called, seed unchanged (frame).",
  note="The PBKDF2 function itself is an injected dependency (assumed). key_size is symbolic in 1..64 (object-size cap).")
P("C05", level="proof", technique=TECH, design_ref="7/C05",
  text="Lemma over the gf_poly_check contract: a valid codeword with coin A applied and coin B removed validates iff A == B, "
       "for all 2048x2048 pairs and all polynomials; gf layer proved against the field specification.",
  note="Encode/decode placement of the coin XOR is part of the encode/decode contracts (units U.enc.*, U.dec.*).")
P("C06", level="proof", technique=TECH, design_ref="7/C06",
  text="polyseed_data_store / polyseed_data_load proved against the byte-level image specification for all seeds and all 2^256 "
       "buffers; polyseed_load proved to return MEMORY, FORMAT, CHECKSUM, UNSUPPORTED, OK in that precedence, to hand out a "
       "canonical seed whose image is the buffer on OK and to free the wiped block otherwise; inverse lemmas over the contracts.",
  note="LP64 only; allocator/free/memzero are stubs (assumed).")
P("C10", level="proof", technique=TECH, design_ref="7/C10",
  text="polyseed_enable_features proved from an arbitrary previous mask (most recent call wins, popcount returned); "
       "features_supported, make/get_features, is_encrypted proved; create and load proved to refuse exactly the reserved bits.",
  note="Decoder entry points are covered by the decoder units.")
P("C11", level="proof", technique=TECH, design_ref="7/C11",
  text="birthday_encode proved against a division-free specification for all 2^64 clock values; birthday_decode and "
       "polyseed_get_birthday proved = epoch + k*step without overflow; polyseed_create proved to stamp the seed from exactly "
       "one call of the injected clock; packing inverse lemmas carry all 10 bits.",
  note="The clock is an injected dependency (assumed arbitrary uint64).")
P("C15", level="proof", technique=TECH, design_ref="7/C15",
  text="Allocator ledger contracts: create and load call the injected allocator at most once with sizeof(seed); every failure "
       "path returns the block through the injected free exactly once (after wiping) and leaves nothing live; NULL from the "
       "allocator gives the memory status with *seed_out untouched; polyseed_free(NULL) calls nothing; the free stub rejects "
       "foreign and repeated pointers; block contents are arbitrary in every proof.",
  note="Decoders: units U.dec.*.")

NOT_APPLICABLE = {}
HOOK_COMMITS = []
NOTES = ("All checks rebuild from /repo's working tree on every run (sources are copied to a private scratch directory under "
         "/verif/.work and specification-only text is woven in; the weave is checked reversible byte for byte). Exit 0 held, "
         "1 VIOLATION, 2 UNDECIDED (timeout, weave/compile break, tool error) -- an undecided obligation is never reported as a violation.")
